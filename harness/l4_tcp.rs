//@ target: src/layer_4/tcp.rs
//@ mod: verif_tcp
// Harnesses over the real `layer_4::tcp::repl` (C06 SYN policy, C07 data path arithmetic,
// C09 growth law, C12 reply-typed segments, C03 port mirroring, C08/C19 hand-over).
use crate::client::ClientInfo;
use crate::verif_util::*;
use crate::{proto, synackcookie, Masscanned};
use pnet::packet::ip::IpNextHeaderProtocols;
use pnet::packet::tcp::{MutableTcpPacket, TcpFlags, TcpPacket};
use pnet::packet::Packet;
use pnet::util::MacAddr;
use std::net::{IpAddr, Ipv4Addr, Ipv6Addr};

fn any_ci(v6: bool) -> ClientInfo {
    let mut ci = ClientInfo::new();
    if v6 {
        ci.ip.src = Some(IpAddr::V6(any_ip6()));
        ci.ip.dst = Some(IpAddr::V6(any_ip6()));
    } else {
        ci.ip.src = Some(IpAddr::V4(any_ip4()));
        ci.ip.dst = Some(IpAddr::V4(any_ip4()));
    }
    ci.transport = Some(IpNextHeaderProtocols::Tcp);
    ci
}

/// Arms the `synackcookie::generate` contract stub: one arbitrary cookie for this frame's
/// flow; records what 4-tuple/key the frame carries so the stub can check its arguments.
fn arm_cookie(ci: &ClientInfo, req: &TcpPacket, m: &Masscanned) -> u32 {
    let rec = cookie_rec();
    rec.value = kani::any();
    rec.ip = ci.ip;
    rec.sport = req.get_source();
    rec.dport = req.get_destination();
    rec.key = m.synack_key;
    rec.value
}

/// connection table with exactly `n` entries under arbitrary distinct keys.  The number of
/// entries is concrete per harness instance (a symbolic container shape makes CBMC run out
/// of memory - measured); the keys are symbolic, so an entry may or may not be this flow's.
fn any_table(n: usize) -> (u32, u32) {
    let k1: u32 = kani::any();
    let k2: u32 = kani::any();
    if n >= 1 {
        proto::add_tcb(k1);
    }
    if n >= 2 {
        kani::assume(k1 != k2);
        proto::add_tcb(k2);
    }
    (k1, k2)
}

fn syn_policy(v6: bool, nt: usize, n: usize) {
    let buf: [u8; 24] = kani::any();
    // data offset 5 or 6 (options), reserved bits and all 9 flag bits free
    kani::assume(buf[12] >> 4 == 5 || buf[12] >> 4 == 6);
    let tcp_req = TcpPacket::new(&buf[..n]).unwrap();
    let flags = tcp_req.get_flags();
    kani::assume(flags & TcpFlags::SYN != 0);
    // SYN segments that also carry PSH and ACK take the data path: decided by c07_data_* (which
    // also asserts that no reply on that path ever carries SYN)
    kani::assume(flags & (TcpFlags::PSH | TcpFlags::ACK) != (TcpFlags::PSH | TcpFlags::ACK));
    let masscanned = ms_plain([kani::any(), kani::any()], MacAddr::new(0, 1, 2, 3, 4, 5));
    let mut ci = any_ci(v6);
    any_table(nt);
    let cookie = arm_cookie(&ci, &tcp_req, &masscanned);
    let q: u32 = kani::any();
    let before = proto::is_tcb_set(q);
    let r = repl(&tcp_req, &masscanned, &mut ci);
    assert!(proto::is_tcb_set(q) == before, "C09: a SYN changed the connection table");
    assert!(proto_rec().calls == 0, "C08: a SYN reached the application layer");
    let rest = flags & !TcpFlags::SYN;
    let allowed = rest & !(TcpFlags::PSH | TcpFlags::URG | TcpFlags::CWR | TcpFlags::ECE) == 0
        && !(rest & TcpFlags::CWR != 0 && rest & TcpFlags::ECE != 0);
    // the oracle is the property text: SYN + subset of {PSH,URG,CWR,ECE} without CWR&ECE
    match r {
        Some(p) => {
            assert!(allowed, "C06: SYN answered for a flag combination outside the policy");
            assert!(p.get_flags() == TcpFlags::SYN | TcpFlags::ACK, "C06: reply flags are not exactly SYN|ACK");
            assert!(
                p.get_acknowledgement() == tcp_req.get_sequence().wrapping_add(1),
                "C06: SYN-ACK does not acknowledge seq+1"
            );
            assert!(p.get_data_offset() >= 5, "C04: data offset below header size");
            assert!(p.packet().len() == 4 * p.get_data_offset() as usize, "C06: SYN-ACK carries payload / C04: data offset");
            assert!(p.get_window() != 0, "C04: zero window on SYN-ACK");
            assert!(p.get_source() == tcp_req.get_destination(), "C03: source port not mirrored");
            assert!(p.get_destination() == tcp_req.get_source(), "C03: destination port not mirrored");
            assert!(cookie_rec().calls >= 1 && cookie_rec().args_ok, "C06: cookie not computed from the frame's own 4-tuple and key");
            assert!(p.get_sequence() == cookie, "C06: SYN-ACK sequence is not the flow's cookie");
            kani::cover!(true, "synack sent");
        }
        None => {
            assert!(!allowed, "C06: allowed SYN not answered");
            kani::cover!(true, "syn ignored");
            kani::cover!(flags == TcpFlags::SYN | TcpFlags::ACK, "C12 synack segment ignored");
        }
    }
}

//# harness: c06_syn_policy_v4
//# props: C06 C03 C09 C12 C08
//# tier: quick
//# encodes: layer_4::tcp::repl (SYN arm and everything before it)
//# encodes: proto::tcb::{add_tcb,is_tcb_set}
//# bounds: all 9 flag bits with SYN set and not both PSH and ACK (192 combinations; the other 64 are decided by c07_data_*) x reserved bits x seq/ack/ports/window/urgent full width x key 2x64 bit x IPv4 addresses full width; segment length 20 with data offset 5 or 6; connection table with 1 entry under arbitrary key(s)
//# stubs: proto::repl -> recording contract stub (must not be reached)
//# stubs: synackcookie::generate -> one arbitrary u32 per flow, arguments recorded and checked (the real function is decided by c06_cookie_*)
//# assumes: client_info carries both IP addresses (set by layer 3 before the call)
//# out: payload lengths > 4 bytes (payload is not read on the SYN arm)
//# cover: synack sent
//# cover: syn ignored
//# cover: C12 synack segment ignored
#[kani::proof]
#[kani::unwind(18)]
#[kani::stub(crate::proto::repl, crate::verif_util::proto_repl_stub)]
#[kani::stub(crate::synackcookie::generate, crate::verif_util::generate_stub)]
fn c06_syn_policy_v4() {
    syn_policy(false, 1, 20)
}

//# harness: c06_syn_policy_v6
//# props: C06 C03 C09 C12 C08
//# tier: quick
//# encodes: layer_4::tcp::repl (SYN arm and everything before it)
//# encodes: proto::tcb::{add_tcb,is_tcb_set}
//# bounds: all 9 flag bits with SYN set and not both PSH and ACK (192 combinations; the other 64 are decided by c07_data_*) x reserved bits x seq/ack/ports/window/urgent full width x key 2x64 bit x IPv6 addresses full width; segment length 24 with data offset 5 or 6; connection table with 1 entry under arbitrary key(s)
//# stubs: proto::repl -> recording contract stub (must not be reached)
//# stubs: synackcookie::generate -> one arbitrary u32 per flow, arguments recorded and checked (the real function is decided by c06_cookie_*)
//# assumes: client_info carries both IP addresses (set by layer 3 before the call)
//# out: payload lengths > 4 bytes (payload is not read on the SYN arm)
//# cover: synack sent
//# cover: syn ignored
//# cover: C12 synack segment ignored
#[kani::proof]
#[kani::unwind(18)]
#[kani::stub(crate::proto::repl, crate::verif_util::proto_repl_stub)]
#[kani::stub(crate::synackcookie::generate, crate::verif_util::generate_stub)]
fn c06_syn_policy_v6() {
    syn_policy(true, 1, 24)
}

//# harness: c06_syn_policy_v4_t0
//# props: C06 C03 C09 C12 C08
//# tier: thorough
//# encodes: layer_4::tcp::repl (SYN arm and everything before it)
//# encodes: proto::tcb::{add_tcb,is_tcb_set}
//# bounds: all 9 flag bits with SYN set and not both PSH and ACK (192 combinations; the other 64 are decided by c07_data_*) x reserved bits x seq/ack/ports/window/urgent full width x key 2x64 bit x IPv4 addresses full width; segment length 24 with data offset 5 or 6; connection table with 0 entries under arbitrary key(s)
//# stubs: proto::repl -> recording contract stub (must not be reached)
//# stubs: synackcookie::generate -> one arbitrary u32 per flow, arguments recorded and checked (the real function is decided by c06_cookie_*)
//# assumes: client_info carries both IP addresses (set by layer 3 before the call)
//# out: payload lengths > 4 bytes (payload is not read on the SYN arm)
//# cover: synack sent
//# cover: syn ignored
//# cover: C12 synack segment ignored
#[kani::proof]
#[kani::unwind(18)]
#[kani::stub(crate::proto::repl, crate::verif_util::proto_repl_stub)]
#[kani::stub(crate::synackcookie::generate, crate::verif_util::generate_stub)]
fn c06_syn_policy_v4_t0() {
    syn_policy(false, 0, 24)
}

//# harness: c06_syn_policy_v4_t2
//# props: C06 C03 C09 C12 C08
//# tier: thorough
//# encodes: layer_4::tcp::repl (SYN arm and everything before it)
//# encodes: proto::tcb::{add_tcb,is_tcb_set}
//# bounds: all 9 flag bits with SYN set and not both PSH and ACK (192 combinations; the other 64 are decided by c07_data_*) x reserved bits x seq/ack/ports/window/urgent full width x key 2x64 bit x IPv4 addresses full width; segment length 20 with data offset 5 or 6; connection table with 2 entries under arbitrary key(s)
//# stubs: proto::repl -> recording contract stub (must not be reached)
//# stubs: synackcookie::generate -> one arbitrary u32 per flow, arguments recorded and checked (the real function is decided by c06_cookie_*)
//# assumes: client_info carries both IP addresses (set by layer 3 before the call)
//# out: payload lengths > 4 bytes (payload is not read on the SYN arm)
//# cover: synack sent
//# cover: syn ignored
//# cover: C12 synack segment ignored
#[kani::proof]
#[kani::unwind(18)]
#[kani::stub(crate::proto::repl, crate::verif_util::proto_repl_stub)]
#[kani::stub(crate::synackcookie::generate, crate::verif_util::generate_stub)]
fn c06_syn_policy_v4_t2() {
    syn_policy(false, 2, 20)
}

/// PSH|ACK segments (any other flag bits, including SYN/FIN/RST): cookie gate, seq/ack
/// arithmetic, table growth law, hand-over of exactly the payload to the application layer.
/// n = segment length, doff = data offset, rl = length of the application reply (when any).
fn data_path(v6: bool, nt: usize, n: usize, doff: usize, rl: usize) {
    let mut buf: [u8; 27] = kani::any();
    buf[12] = (buf[12] & 0x0f) | ((doff as u8) << 4);
    let tcp_req = TcpPacket::new(&buf[..n]).unwrap();
    let flags = tcp_req.get_flags();
    kani::assume(flags & (TcpFlags::PSH | TcpFlags::ACK) == (TcpFlags::PSH | TcpFlags::ACK));
    let masscanned = ms_plain([kani::any(), kani::any()], MacAddr::new(0, 1, 2, 3, 4, 5));
    let mut ci = any_ci(v6);
    let (k1, _k2) = any_table(nt);
    // C08: tag the first entry so that we can tell whose control block the application layer gets
    let m1: usize = kani::any();
    kani::assume(m1 != STUB_MARK);
    if nt >= 1 {
        proto::get_tcb(k1, |t| t.unwrap().smack_state = m1);
    }
    proto_rec().cfg_reply_len = rl;
    let cookie = arm_cookie(&ci, &tcp_req, &masscanned);
    let q: u32 = kani::any();
    let q_before = proto::is_tcb_set(q);
    let known_flow = proto::is_tcb_set(cookie);
    let ack = tcp_req.get_acknowledgement();
    let valid = ack.wrapping_sub(1) == cookie;
    let plen = n - 4 * doff;
    let r = repl(&tcp_req, &masscanned, &mut ci);
    let rec = proto_rec();
    assert!(cookie_rec().calls >= 1 && cookie_rec().args_ok, "C07: cookie not computed from the frame's own 4-tuple and key");
    if !known_flow && !valid {
        assert!(r.is_none(), "C07: data segment answered without a valid cookie");
        assert!(proto::is_tcb_set(q) == q_before, "C09: unvalidated data segment changed the connection table");
        assert!(rec.calls == 0, "C07: unvalidated data reached the application layer");
        kani::cover!(true, "unvalidated data dropped");
        kani::cover!(ack == 0, "unvalidated data with ack 0 dropped");
        if nt >= 1 {
            let mut k1_state = 0;
            proto::get_tcb(k1, |t| k1_state = t.unwrap().smack_state);
            assert!(k1_state == m1, "C08: an unvalidated segment modified a control block");
        }
    } else {
        assert!(
            proto::is_tcb_set(q) == (q_before || q == cookie),
            "C09: connection table is not old table + this flow's cookie"
        );
        assert!(rec.calls == 1, "C11: application layer not called exactly once for an accepted segment");
        assert!(rec.tcb_some, "C08: accepted segment handled without its control block");
        assert!(rec.cookie == Some(cookie), "C08: wrong cookie handed to the application layer");
        if nt >= 1 {
            let mut k1_state = 0;
            proto::get_tcb(k1, |t| k1_state = t.unwrap().smack_state);
            if cookie == k1 {
                assert!(rec.tcb_seen_state == m1 && k1_state == STUB_MARK, "C08: the flow's own control block was not the one handed to the application layer");
            } else {
                assert!(k1_state == m1, "C08: another flow's control block was modified");
                let mut own_state = 0;
                proto::get_tcb(cookie, |t| own_state = t.unwrap().smack_state);
                assert!(own_state == STUB_MARK && rec.tcb_seen_state == 0, "C08: a new flow did not start from a fresh control block of its own");
            }
        }
        assert!(rec.data_len == plen, "C19: application layer did not get exactly the segment payload");
        if plen == 3 {
            assert!(
                rec.data[0] == buf[n - 3] && rec.data[1] == buf[n - 2] && rec.data[2] == buf[n - 1],
                "C19: payload bytes altered before the application layer"
            );
        }
        let p = match r {
            Some(p) => p,
            None => {
                assert!(false, "C07: accepted data segment not answered");
                return;
            }
        };
        let want = if rec.reply_len > 0 { TcpFlags::ACK | TcpFlags::PSH } else { TcpFlags::ACK };
        assert!(p.get_flags() == want, "C07: reply flags are not ACK (+PSH iff data)");
        assert!(p.get_sequence() == ack, "C07: reply sequence is not the peer's acknowledgement number");
        assert!(
            p.get_acknowledgement() == tcp_req.get_sequence().wrapping_add(plen as u32),
            "C07: reply does not acknowledge seq + payload length"
        );
        assert!(p.get_data_offset() >= 5, "C04: data offset below header size");
        let hl = 4 * p.get_data_offset() as usize;
        assert!(p.packet().len() == hl + rec.reply_len, "C07/C04: reply length is not header + application data");
        let b = p.packet();
        if rec.reply_len > 0 {
            assert!(b[hl] == rec.reply[0] && b[hl + rec.reply_len - 1] == rec.reply[rec.reply_len - 1], "C07: application data altered");
        }
        // ports: mirror of client_info as left by the application layer (STUN may move port.dst)
        assert!(p.get_destination() == tcp_req.get_source(), "C03: destination port is not the peer's source port");
        assert!(Some(p.get_source()) == ci.port.dst, "C03: source port is not the (possibly moved) contacted port");
        kani::cover!(rec.reply_len > 0, "data answered with PSH");
        kani::cover!(rec.reply_len == 0, "data acked only");
        kani::cover!(!known_flow && valid && ack == 0, "first data with ack 0 (cookie 0xffffffff)");
        kani::cover!(known_flow && !valid, "known flow, any ack");
        kani::cover!(tcp_req.get_sequence() > 0xfffffffd && plen == 3, "ack wraps");
        kani::cover!(flags & TcpFlags::SYN != 0, "SYN|PSH|ACK behind a cookie is data, reply has no SYN");
    }
}

//# harness: c07_data_v4
//# props: C07 C09 C03 C08 C19 C11@thorough
//# tier: quick
//# encodes: layer_4::tcp::repl (PSH|ACK arm)
//# encodes: proto::tcb::{add_tcb,is_tcb_set,get_tcb}
//# bounds: PSH and ACK set, the other 7 flag bits free (incl. SYN, FIN, RST); seq/ack/ports/key/IPv4 addresses full width (incl. ack = 0 and wrap-around); segment length 23, data offset 5, payload 3 bytes; application reply None or 2 arbitrary bytes; connection table with 1 entry under arbitrary key(s) (a validated flow is one whose cookie is in the table - C09 growth law)
//# stubs: proto::repl -> recording contract stub: None or Some(2 arbitrary bytes), may rewrite client_info.port.dst
//# stubs: synackcookie::generate -> one arbitrary u32 per flow, arguments recorded and checked
//# assumes: data offset >= 5 and header inside the segment (malformed offsets: no-panic only, see c01_tcp_nopanic)
//# out: other payload / reply lengths (length enters only through payload().len(), wrapping_add and concat)
//# cover: unvalidated data dropped
//# cover: data answered with PSH
//# cover: data acked only
//# cover: known flow, any ack
//# cover: ack wraps
#[kani::proof]
#[kani::unwind(18)]
#[kani::stub(crate::proto::repl, crate::verif_util::proto_repl_stub)]
#[kani::stub(crate::synackcookie::generate, crate::verif_util::generate_stub)]
fn c07_data_v4() {
    data_path(false, 1, 23, 5, 2)
}

//# harness: c07_data_v4_nopayload
//# props: C07 C09
//# tier: quick
//# encodes: layer_4::tcp::repl (PSH|ACK arm)
//# encodes: proto::tcb::{add_tcb,is_tcb_set,get_tcb}
//# bounds: PSH and ACK set, the other 7 flag bits free (incl. SYN, FIN, RST); seq/ack/ports/key/IPv4 addresses full width (incl. ack = 0 and wrap-around); segment length 20, data offset 5, payload 0 bytes; application reply None or 1 arbitrary bytes; connection table with 1 entry under arbitrary key(s) (a validated flow is one whose cookie is in the table - C09 growth law)
//# stubs: proto::repl -> recording contract stub: None or Some(1 arbitrary bytes), may rewrite client_info.port.dst
//# stubs: synackcookie::generate -> one arbitrary u32 per flow, arguments recorded and checked
//# assumes: data offset >= 5 and header inside the segment (malformed offsets: no-panic only, see c01_tcp_nopanic)
//# out: other payload / reply lengths (length enters only through payload().len(), wrapping_add and concat)
//# cover: unvalidated data dropped
//# cover: data answered with PSH
//# cover: data acked only
//# cover: known flow, any ack
#[kani::proof]
#[kani::unwind(18)]
#[kani::stub(crate::proto::repl, crate::verif_util::proto_repl_stub)]
#[kani::stub(crate::synackcookie::generate, crate::verif_util::generate_stub)]
fn c07_data_v4_nopayload() {
    data_path(false, 1, 20, 5, 1)
}

//# harness: c07_data_v6_opts
//# props: C07 C09 C03 C19
//# tier: thorough
//# encodes: layer_4::tcp::repl (PSH|ACK arm)
//# encodes: proto::tcb::{add_tcb,is_tcb_set,get_tcb}
//# bounds: PSH and ACK set, the other 7 flag bits free (incl. SYN, FIN, RST); seq/ack/ports/key/IPv6 addresses full width (incl. ack = 0 and wrap-around); segment length 27, data offset 6, payload 3 bytes; application reply None or 3 arbitrary bytes; connection table with 1 entry under arbitrary key(s) (a validated flow is one whose cookie is in the table - C09 growth law)
//# stubs: proto::repl -> recording contract stub: None or Some(3 arbitrary bytes), may rewrite client_info.port.dst
//# stubs: synackcookie::generate -> one arbitrary u32 per flow, arguments recorded and checked
//# assumes: data offset >= 5 and header inside the segment (malformed offsets: no-panic only, see c01_tcp_nopanic)
//# out: other payload / reply lengths (length enters only through payload().len(), wrapping_add and concat)
//# cover: unvalidated data dropped
//# cover: data answered with PSH
//# cover: data acked only
//# cover: known flow, any ack
//# cover: ack wraps
#[kani::proof]
#[kani::unwind(18)]
#[kani::stub(crate::proto::repl, crate::verif_util::proto_repl_stub)]
#[kani::stub(crate::synackcookie::generate, crate::verif_util::generate_stub)]
fn c07_data_v6_opts() {
    data_path(true, 1, 27, 6, 3)
}

//# harness: c07_data_v4_t0
//# props: C07 C09
//# tier: thorough
//# encodes: layer_4::tcp::repl (PSH|ACK arm)
//# encodes: proto::tcb::{add_tcb,is_tcb_set,get_tcb}
//# bounds: PSH and ACK set, the other 7 flag bits free (incl. SYN, FIN, RST); seq/ack/ports/key/IPv4 addresses full width (incl. ack = 0 and wrap-around); segment length 23, data offset 5, payload 3 bytes; application reply None or 2 arbitrary bytes; connection table with 0 entries under arbitrary key(s) (a validated flow is one whose cookie is in the table - C09 growth law)
//# stubs: proto::repl -> recording contract stub: None or Some(2 arbitrary bytes), may rewrite client_info.port.dst
//# stubs: synackcookie::generate -> one arbitrary u32 per flow, arguments recorded and checked
//# assumes: data offset >= 5 and header inside the segment (malformed offsets: no-panic only, see c01_tcp_nopanic)
//# out: other payload / reply lengths (length enters only through payload().len(), wrapping_add and concat)
//# cover: unvalidated data dropped
//# cover: data answered with PSH
//# cover: data acked only
//# cover: ack wraps
#[kani::proof]
#[kani::unwind(18)]
#[kani::stub(crate::proto::repl, crate::verif_util::proto_repl_stub)]
#[kani::stub(crate::synackcookie::generate, crate::verif_util::generate_stub)]
fn c07_data_v4_t0() {
    data_path(false, 0, 23, 5, 2)
}

//# harness: c07_data_v4_t2
//# timeout: 1400
//# props: C07 C09 C08
//# tier: thorough
//# encodes: layer_4::tcp::repl (PSH|ACK arm)
//# encodes: proto::tcb::{add_tcb,is_tcb_set,get_tcb}
//# bounds: PSH and ACK set, the other 7 flag bits free (incl. SYN, FIN, RST); seq/ack/ports/key/IPv4 addresses full width (incl. ack = 0 and wrap-around); segment length 23, data offset 5, payload 3 bytes; application reply None or 2 arbitrary bytes; connection table with 2 entries under arbitrary key(s) (a validated flow is one whose cookie is in the table - C09 growth law)
//# stubs: proto::repl -> recording contract stub: None or Some(2 arbitrary bytes), may rewrite client_info.port.dst
//# stubs: synackcookie::generate -> one arbitrary u32 per flow, arguments recorded and checked
//# assumes: data offset >= 5 and header inside the segment (malformed offsets: no-panic only, see c01_tcp_nopanic)
//# out: other payload / reply lengths (length enters only through payload().len(), wrapping_add and concat)
//# cover: unvalidated data dropped
//# cover: data answered with PSH
//# cover: data acked only
//# cover: known flow, any ack
//# cover: ack wraps
#[kani::proof]
#[kani::unwind(18)]
#[kani::stub(crate::proto::repl, crate::verif_util::proto_repl_stub)]
#[kani::stub(crate::synackcookie::generate, crate::verif_util::generate_stub)]
fn c07_data_v4_t2() {
    data_path(false, 2, 23, 5, 2)
}

/// every segment without SYN and without PSH&ACK-both: FIN|ACK handshake, silence for
/// bare ACK / RST, nothing reaches the application layer, table untouched
fn other_segments(v6: bool, nt: usize, n: usize) {
    other_segments_flags(v6, nt, n, None)
}
/// fixed = Some(f): the flag byte is the concrete value f (NS clear): small instances whose
/// counterexamples are cheap to replay; None: every flag word
fn other_segments_flags(v6: bool, nt: usize, n: usize, fixed: Option<u8>) {
    let mut buf: [u8; 24] = kani::any();
    if let Some(f) = fixed {
        buf[12] = 5 << 4;
        buf[13] = f;
    }
    kani::assume(buf[12] >> 4 == 5 || buf[12] >> 4 == 6);
    let tcp_req = TcpPacket::new(&buf[..n]).unwrap();
    let flags = tcp_req.get_flags();
    kani::assume(flags & TcpFlags::SYN == 0);
    kani::assume(flags & (TcpFlags::PSH | TcpFlags::ACK) != (TcpFlags::PSH | TcpFlags::ACK));
    let masscanned = ms_plain([kani::any(), kani::any()], MacAddr::new(0, 1, 2, 3, 4, 5));
    let mut ci = any_ci(v6);
    any_table(nt);
    arm_cookie(&ci, &tcp_req, &masscanned);
    let q: u32 = kani::any();
    let before = proto::is_tcb_set(q);
    let r = repl(&tcp_req, &masscanned, &mut ci);
    assert!(proto::is_tcb_set(q) == before, "C09: a non-data segment changed the connection table");
    assert!(proto_rec().calls == 0, "C08: a non-data segment reached the application layer");
    if flags == TcpFlags::FIN | TcpFlags::ACK {
        let p = match r {
            Some(p) => p,
            None => {
                assert!(false, "C07: bare FIN|ACK not answered");
                return;
            }
        };
        assert!(p.get_flags() == TcpFlags::FIN | TcpFlags::ACK, "C07: FIN|ACK not answered with FIN|ACK");
        assert!(p.get_acknowledgement() == tcp_req.get_sequence().wrapping_add(1), "C07: FIN|ACK reply does not acknowledge seq+1");
        assert!(p.get_sequence() == tcp_req.get_acknowledgement(), "C07: FIN|ACK reply sequence is not the peer's ack");
        assert!(p.get_source() == tcp_req.get_destination() && p.get_destination() == tcp_req.get_source(), "C03: ports not mirrored");
        assert!(p.get_data_offset() >= 5 && p.packet().len() == 4 * p.get_data_offset() as usize, "C04: FIN|ACK reply length / data offset");
        kani::cover!(true, "finack answered");
        return;
    }
    if flags == TcpFlags::ACK || flags == TcpFlags::RST {
        assert!(r.is_none(), "C07/C12: bare ACK or RST segment answered");
        kani::cover!(flags == TcpFlags::RST, "rst ignored");
        kani::cover!(flags == TcpFlags::ACK, "ack ignored");
    }
    if let Some(p) = &r {
        assert!(p.get_flags() & TcpFlags::SYN == 0, "C06: SYN-flagged reply to a segment without SYN");
    }
}

//# harness: c07_other_v4
//# props: C07 C09 C12 C08
//# tier: quick
//# encodes: layer_4::tcp::repl (ACK, RST, FIN|ACK and default arms)
//# bounds: all flag words without SYN and without PSH&ACK-both (7 free bits incl. NS), reserved bits, seq/ack/ports full width, segment length 24 (data offset 5 or 6), table with 1 entry under an arbitrary key
//# stubs: proto::repl -> recording contract stub (must not be reached)
//# stubs: synackcookie::generate -> one arbitrary u32 per flow
//# out: what other flag combinations (e.g. FIN alone, URG) elicit - the property does not say; only 'no SYN in the reply, no state change' is asserted for them
//# cover: finack answered
//# cover: rst ignored
//# cover: ack ignored
#[kani::proof]
#[kani::unwind(18)]
#[kani::stub(crate::proto::repl, crate::verif_util::proto_repl_stub)]
#[kani::stub(crate::synackcookie::generate, crate::verif_util::generate_stub)]
fn c07_other_v4() {
    other_segments(false, 1, 24)
}

//# harness: c07_ack_v4
//# props: C07 C09 C12 C08
//# tier: quick
//# encodes: layer_4::tcp::repl (bare ACK arm)
//# bounds: flag byte exactly bare ACK (0x10), data offset 5, seq/ack/ports/window/urgent full width, 4 payload bytes, table with 1 entry under an arbitrary key
//# stubs: proto::repl -> recording contract stub (must not be reached)
//# stubs: synackcookie::generate -> one arbitrary u32 per flow
//# cover: ack ignored
#[kani::proof]
#[kani::unwind(18)]
#[kani::stub(crate::proto::repl, crate::verif_util::proto_repl_stub)]
#[kani::stub(crate::synackcookie::generate, crate::verif_util::generate_stub)]
fn c07_ack_v4() {
    other_segments_flags(false, 1, 24, Some(0x10))
}

//# harness: c07_finack_v4
//# props: C07 C09 C12 C08
//# tier: quick
//# encodes: layer_4::tcp::repl (FIN|ACK arm)
//# bounds: flag byte exactly FIN|ACK (0x11), data offset 5, seq/ack/ports/window/urgent full width, 4 payload bytes, table with 1 entry under an arbitrary key
//# stubs: proto::repl -> recording contract stub (must not be reached)
//# stubs: synackcookie::generate -> one arbitrary u32 per flow
//# cover: finack answered
#[kani::proof]
#[kani::unwind(18)]
#[kani::stub(crate::proto::repl, crate::verif_util::proto_repl_stub)]
#[kani::stub(crate::synackcookie::generate, crate::verif_util::generate_stub)]
fn c07_finack_v4() {
    other_segments_flags(false, 1, 24, Some(0x11))
}

//# harness: c07_rst_v4
//# props: C07 C09 C12 C08
//# tier: quick
//# encodes: layer_4::tcp::repl (RST arm)
//# bounds: flag byte exactly RST (0x04), data offset 5, seq/ack/ports/window/urgent full width, 4 payload bytes, table with 1 entry under an arbitrary key
//# stubs: proto::repl -> recording contract stub (must not be reached)
//# stubs: synackcookie::generate -> one arbitrary u32 per flow
//# cover: rst ignored
#[kani::proof]
#[kani::unwind(18)]
#[kani::stub(crate::proto::repl, crate::verif_util::proto_repl_stub)]
#[kani::stub(crate::synackcookie::generate, crate::verif_util::generate_stub)]
fn c07_rst_v4() {
    other_segments_flags(false, 1, 24, Some(0x04))
}

//# harness: c07_other_v6
//# props: C07 C09 C12
//# tier: thorough
//# encodes: layer_4::tcp::repl (ACK, RST, FIN|ACK and default arms)
//# bounds: as c07_other_v4 over IPv6, segment length 20, empty table
//# stubs: proto::repl -> recording contract stub (must not be reached)
//# stubs: synackcookie::generate -> one arbitrary u32 per flow
//# cover: finack answered
//# cover: rst ignored
#[kani::proof]
#[kani::unwind(18)]
#[kani::stub(crate::proto::repl, crate::verif_util::proto_repl_stub)]
#[kani::stub(crate::synackcookie::generate, crate::verif_util::generate_stub)]
fn c07_other_v6() {
    other_segments(true, 0, 20)
}

fn tcp_nopanic(n: usize, nt: usize) {
    let buf: [u8; 25] = kani::any();
    let tcp_req = TcpPacket::new(&buf[..n]).unwrap();
    let masscanned = ms_plain([kani::any(), kani::any()], MacAddr::new(0, 1, 2, 3, 4, 5));
    let mut ci = any_ci(false);
    any_table(nt);
    arm_cookie(&ci, &tcp_req, &masscanned);
    let r = repl(&tcp_req, &masscanned, &mut ci);
    kani::cover!(r.is_some(), "reply produced");
    kani::cover!(r.is_none(), "silence");
    kani::cover!(buf[12] >> 4 > 6, "data offset beyond the segment");
    kani::cover!(buf[12] >> 4 < 5, "data offset below 5");
}

//# harness: c01_tcp_nopanic_20
//# props: C01
//# tier: quick
//# encodes: layer_4::tcp::repl
//# bounds: segment of 20 bytes, all header bytes symbolic incl. data offsets 0..15 that lie about the header size, all 512 flag words; table with 1 entry; IPv4
//# stubs: proto::repl -> recording contract stub
//# stubs: synackcookie::generate -> one arbitrary u32 per flow
//# out: longer segments (payload is only sliced by pnet from the data offset)
//# cover: reply produced
//# cover: silence
//# cover: data offset beyond the segment
//# cover: data offset below 5
#[kani::proof]
#[kani::unwind(18)]
#[kani::stub(crate::proto::repl, crate::verif_util::proto_repl_stub)]
#[kani::stub(crate::synackcookie::generate, crate::verif_util::generate_stub)]
fn c01_tcp_nopanic_20() {
    tcp_nopanic(20, 1)
}

//# harness: c01_tcp_nopanic_25
//# props: C01
//# tier: quick
//# encodes: layer_4::tcp::repl
//# bounds: segment of 25 bytes, all header bytes symbolic incl. data offsets 0..15 that lie about the header size, all 512 flag words; table with 1 entry; IPv4
//# stubs: proto::repl -> recording contract stub
//# stubs: synackcookie::generate -> one arbitrary u32 per flow
//# out: longer segments (payload is only sliced by pnet from the data offset)
//# cover: reply produced
//# cover: silence
//# cover: data offset beyond the segment
//# cover: data offset below 5
#[kani::proof]
#[kani::unwind(18)]
#[kani::stub(crate::proto::repl, crate::verif_util::proto_repl_stub)]
#[kani::stub(crate::synackcookie::generate, crate::verif_util::generate_stub)]
fn c01_tcp_nopanic_25() {
    tcp_nopanic(25, 1)
}

//# harness: c01_tcp_nopanic_22
//# props: C01
//# tier: thorough
//# encodes: layer_4::tcp::repl
//# bounds: segment of 22 bytes, all header bytes symbolic incl. data offsets 0..15 that lie about the header size, all 512 flag words; table with 0 entries; IPv4
//# stubs: proto::repl -> recording contract stub
//# stubs: synackcookie::generate -> one arbitrary u32 per flow
//# out: longer segments (payload is only sliced by pnet from the data offset)
//# cover: reply produced
//# cover: silence
//# cover: data offset beyond the segment
//# cover: data offset below 5
#[kani::proof]
#[kani::unwind(18)]
#[kani::stub(crate::proto::repl, crate::verif_util::proto_repl_stub)]
#[kani::stub(crate::synackcookie::generate, crate::verif_util::generate_stub)]
fn c01_tcp_nopanic_22() {
    tcp_nopanic(22, 0)
}

//# harness: c20_tcp_events
//# props: C20
//# tier: quick
//# encodes: layer_4::tcp::repl
//# encodes: logger::MetaLogger::{tcp_recv,tcp_send,tcp_drop}
//# bounds: 20-byte segment, all 512 flag words and all header fields symbolic; table with 1 entry; IPv4
//# stubs: proto::repl -> recording contract stub; synackcookie::generate -> one arbitrary u32 per flow
//# cover: answered
//# cover: dropped
#[kani::proof]
#[kani::unwind(18)]
#[kani::stub(crate::proto::repl, crate::verif_util::proto_repl_stub)]
#[kani::stub(crate::synackcookie::generate, crate::verif_util::generate_stub)]
fn c20_tcp_events() {
    let buf: [u8; 20] = kani::any();
    let tcp_req = TcpPacket::new(&buf[..]).unwrap();
    let masscanned = ms_counting([kani::any(), kani::any()], MacAddr::new(0, 1, 2, 3, 4, 5));
    let mut ci = any_ci(false);
    any_table(1);
    arm_cookie(&ci, &tcp_req, &masscanned);
    let r = repl(&tcp_req, &masscanned, &mut ci);
    assert!(balanced(L_TCP, r.is_some()), "C20: TCP layer did not log exactly one recv and one terminal event (send iff answered)");
    let shown = ev(L_TCP).ci_recv.unwrap();
    assert!(shown.port.src == Some(tcp_req.get_source()) && shown.port.dst == Some(tcp_req.get_destination()), "C20: ports shown to the logger are not the segment's");
    assert!(ip_eq(&shown.ip.src, &ci.ip.src) && ip_eq(&shown.ip.dst, &ci.ip.dst), "C20: addresses shown to the logger are not the packet's");
    kani::cover!(r.is_some(), "answered");
    kani::cover!(r.is_none(), "dropped");
}

//# harness: c08_tcp_two_flows
//# props: C08 C07@thorough
//# tier: quick
//# encodes: layer_4::tcp::repl (two consecutive calls)
//# bounds: flow A = (src, sport, dst, dportA) sends PSH|ACK with a valid cookie; then flow B = same peer, other destination port, sends PSH|ACK with an arbitrary acknowledgement number; addresses, ports, both cookies, seq/ack symbolic; 20-byte segments; empty table at the start
//# stubs: proto::repl -> recording contract stub; synackcookie::generate -> arbitrary function of the destination port with two values (cookieA, cookieB)
//# note: a step from an arbitrary table cannot see state that a modified implementation keeps OUTSIDE the table (caches, statics); this two-step harness does
//# cover: B dropped after A validated
//# cover: B accepted with its own cookie
#[kani::proof]
#[kani::unwind(18)]
#[kani::stub(crate::proto::repl, crate::verif_util::proto_repl_stub)]
#[kani::stub(crate::synackcookie::generate, crate::verif_util::generate_stub2)]
fn c08_tcp_two_flows() {
    let mut a: [u8; 20] = kani::any();
    let mut b: [u8; 20] = kani::any();
    a[12] = 0x50; a[13] = 0x18; // data offset 5, PSH|ACK
    b[12] = 0x50; b[13] = 0x18;
    b[0] = a[0]; b[1] = a[1]; // same source port
    let ra = TcpPacket::new(&a[..]).unwrap();
    let rb = TcpPacket::new(&b[..]).unwrap();
    kani::assume(ra.get_destination() != rb.get_destination());
    let ca: u32 = kani::any();
    let cb: u32 = kani::any();
    kani::assume(ca != cb);
    unsafe { COOKIE2 = (ra.get_destination(), ca, cb); }
    kani::assume(ra.get_acknowledgement().wrapping_sub(1) == ca);
    let masscanned = ms_plain([kani::any(), kani::any()], MacAddr::new(0, 1, 2, 3, 4, 5));
    let mut ci = any_ci(false);
    proto_rec().cfg_reply_len = 1;
    let r1 = repl(&ra, &masscanned, &mut ci);
    assert!(r1.is_some() && proto::is_tcb_set(ca), "C07: first data segment with a valid cookie not accepted");
    let calls_after_a = proto_rec().calls;
    let mut ci2 = ci;
    ci2.cookie = None;
    let r2 = repl(&rb, &masscanned, &mut ci2);
    let b_valid = rb.get_acknowledgement().wrapping_sub(1) == cb;
    if b_valid {
        assert!(r2.is_some() && proto::is_tcb_set(cb), "C08: flow B with its own valid cookie not accepted after flow A");
        assert!(proto_rec().cookie == Some(cb), "C08: flow B handled under another flow's cookie");
        kani::cover!(true, "B accepted with its own cookie");
    } else {
        assert!(r2.is_none(), "C08/C07: flow B answered without a valid cookie because flow A of the same peer was validated");
        assert!(!proto::is_tcb_set(cb) && proto_rec().calls == calls_after_a, "C08: flow B reached the application layer / got state through flow A");
        kani::cover!(true, "B dropped after A validated");
    }
}
