//@ target: src/layer_4/tcp.rs
//@ mod: verif_tcp
// Harnesses over the real `layer_4::tcp::repl` (C06 SYN policy, C07 data path arithmetic,
// C09 growth law, C12 reply-typed segments, C03 port mirroring, C20 events).
use crate::verif_util::*;
use std::net::{IpAddr, Ipv4Addr, Ipv6Addr};
use pnet::packet::ip::IpNextHeaderProtocols;
use pnet::packet::tcp::{MutableTcpPacket, TcpFlags, TcpPacket};
use pnet::packet::Packet;
use pnet::util::MacAddr;
use crate::client::ClientInfo;
use crate::{proto, synackcookie, Masscanned};

/// Contract stub for the layer above: arbitrary reply of <= 3 bytes; may move `port.dst`
/// (what the STUN responder does); never touches `port.src`.
pub fn proto_repl_stub<'a>(
    _data: &'a [u8],
    _m: &Masscanned,
    ci: &mut ClientInfo,
    _tcb: Option<&mut proto::TCPControlBlock>,
) -> Option<Vec<u8>> {
    if kani::any() {
        ci.port.dst = Some(kani::any());
    }
    if kani::any() {
        let n: usize = kani::any();
        kani::assume(n <= 3);
        let mut v = Vec::with_capacity(4);
        let mut i = 0;
        while i < n {
            v.push(kani::any());
            i += 1;
        }
        Some(v)
    } else {
        None
    }
}

fn syn_policy(v6: bool) {
    let mut buf: [u8; 24] = kani::any();
    // data offset 5 or 6 (options), reserved bits and all 9 flag bits free
    kani::assume(buf[12] >> 4 == 5 || buf[12] >> 4 == 6);
    let n: usize = if kani::any() { 20 } else { 24 };
    let tcp_req = TcpPacket::new(&buf[..n]).unwrap();
    let flags = tcp_req.get_flags();
    kani::assume(flags & TcpFlags::SYN != 0);
    // SYN segments that also carry PSH and ACK take the data path: decided by c07_data_* (which
    // also asserts that no reply on that path ever carries SYN)
    kani::assume(flags & (TcpFlags::PSH | TcpFlags::ACK) != (TcpFlags::PSH | TcpFlags::ACK));
    let masscanned = ms_plain([kani::any(), kani::any()], MacAddr::new(0, 1, 2, 3, 4, 5));
    let mut ci = ClientInfo::new();
    if v6 {
        ci.ip.src = Some(IpAddr::V6(any_ip6()));
        ci.ip.dst = Some(IpAddr::V6(any_ip6()));
    } else {
        ci.ip.src = Some(IpAddr::V4(any_ip4()));
        ci.ip.dst = Some(IpAddr::V4(any_ip4()));
    }
    ci.transport = Some(IpNextHeaderProtocols::Tcp);
    let r = repl(&tcp_req, &masscanned, &mut ci);
    let rest = flags & !TcpFlags::SYN;
    let allowed = rest & !(TcpFlags::PSH | TcpFlags::URG | TcpFlags::CWR | TcpFlags::ECE) == 0
        && !(rest & TcpFlags::CWR != 0 && rest & TcpFlags::ECE != 0);
    // the oracle is the property text: SYN + subset of {PSH,URG,CWR,ECE} without CWR&ECE
    match r {
        Some(p) if p.get_flags() & TcpFlags::SYN != 0 => {
            assert!(allowed, "C06: SYN-ACK sent for a flag combination outside the policy");
            assert!(p.get_flags() == TcpFlags::SYN | TcpFlags::ACK, "C06: reply flags are not exactly SYN|ACK");
            assert!(
                p.get_acknowledgement() == tcp_req.get_sequence().wrapping_add(1),
                "C06: SYN-ACK does not acknowledge seq+1"
            );
            assert!(p.packet().len() == 4 * p.get_data_offset() as usize, "C06: SYN-ACK carries payload");
            assert!(p.get_data_offset() >= 5, "C04: data offset below header size");
            assert!(p.get_window() != 0, "C04: zero window on SYN-ACK");
            assert!(p.get_source() == tcp_req.get_destination(), "C03: source port not mirrored");
            assert!(p.get_destination() == tcp_req.get_source(), "C03: destination port not mirrored");
            // the cookie is the documented function of the 4-tuple and the key
            let mut ci2 = ClientInfo::new();
            ci2.ip = ci.ip;
            ci2.port.src = Some(tcp_req.get_source());
            ci2.port.dst = Some(tcp_req.get_destination());
            let c = synackcookie::generate(&ci2, &masscanned.synack_key).unwrap();
            assert!(p.get_sequence() == c, "C06: SYN-ACK sequence is not the flow's cookie");
            kani::cover!(true, "synack sent");
        }
        _ => {
            // silence, or (SYN|PSH|ACK behind a valid cookie) a data ACK, which is not a SYN-ACK
            assert!(!allowed, "C06: allowed SYN not answered with a SYN-ACK");
            kani::cover!(true, "syn not answered with synack");
        }
    }
}

//# harness: c06_syn_policy_v4
//# props: C06 C03 C12
//# tier: quick
//# encodes: layer_4::tcp::repl
//# encodes: synackcookie::generate (real SipHash-2-4 via siphasher)
//# bounds: all 9 flag bits with SYN set and not both PSH and ACK (192 combinations; the other 64 are decided by c07_data_*) x reserved bits x seq/ack/ports/window/urgent full width x key 2x64 bit x IPv4 addresses full width; segment length 20 or 24, data offset 5 or 6
//# stubs: proto::repl -> arbitrary Option<Vec<u8>> of <= 3 bytes, may rewrite port.dst (only reachable on the PSH|ACK arm)
//# assumes: client_info carries both IP addresses (set by layer 3 before the call)
//# out: payload lengths > 4 bytes (payload is not read on the SYN arm)
//# cover: synack sent
//# cover: syn not answered with synack
#[kani::proof]
#[kani::unwind(6)]
#[kani::stub(crate::proto::repl, proto_repl_stub)]
fn c06_syn_policy_v4() {
    syn_policy(false)
}

//# harness: c06_syn_policy_v6
//# props: C06 C03 C12
//# tier: quick
//# encodes: layer_4::tcp::repl
//# encodes: synackcookie::generate (real SipHash-2-4 via siphasher)
//# bounds: as c06_syn_policy_v4 with full-width IPv6 addresses
//# stubs: proto::repl -> arbitrary Option<Vec<u8>> of <= 3 bytes, may rewrite port.dst
//# cover: synack sent
//# cover: syn not answered with synack
#[kani::proof]
#[kani::unwind(6)]
#[kani::stub(crate::proto::repl, proto_repl_stub)]
fn c06_syn_policy_v6() {
    syn_policy(true)
}
