//@ target: src/proto/smb.rs
//@ mod: verif_smb
// The real SMB responders `repl_smb1` / `repl_smb2` (byte-wise NetBIOS / SMB header /
// request dissectors + reply builders): framing, correlation fields, embedded lengths and
// offsets, dialect choice, request/response gate (C17, C12, C01).
use crate::client::ClientInfo;
use crate::verif_util::*;
use crate::Masscanned;
use pnet::util::MacAddr;

fn le16(b: &[u8]) -> usize {
    b[0] as usize | (b[1] as usize) << 8
}
fn ms() -> Masscanned<'static> {
    ms_plain([0, 0], MacAddr::new(0, 1, 2, 3, 4, 5))
}
fn put(dst: &mut [u8], at: usize, src: &[u8]) -> usize {
    let mut i = 0;
    while i < src.len() {
        dst[at + i] = src[i];
        i += 1;
    }
    at + src.len()
}

/// checks NetBIOS framing + SMB1 header of a reply against the 36 request bytes
fn check_smb1_frame(r: &[u8], req: &[u8]) {
    assert!(r.len() >= 36, "C17: SMB1 reply shorter than NetBIOS + SMB header");
    assert!(r[0] == 0, "C17: NetBIOS message type is not SESSION MESSAGE");
    assert!(((r[1] as usize & 1) << 16 | (r[2] as usize) << 8 | r[3] as usize) == r.len() - 4, "C17: NetBIOS length differs from the bytes that follow");
    assert!(r[4] == 0xff && r[5] == b'S' && r[6] == b'M' && r[7] == b'B', "C17: not an SMB1 header");
    assert!(r[8] == req[8], "C17: SMB1 command not echoed");
    assert!(r[13] & 0x80 != 0, "C17: reply flag not set");
    assert!(r[16] == req[16] && r[17] == req[17], "C17: PIDHigh not echoed");
    assert!(r[28] == req[28] && r[29] == req[29], "C17: TID not echoed");
    assert!(r[30] == req[30] && r[31] == req[31], "C17: PIDLow not echoed");
    assert!(r[32] == req[32] && r[33] == req[33], "C17: UID not echoed");
    assert!(r[34] == req[34] && r[35] == req[35], "C17: MID not echoed");
}

/// SMB1 Negotiate: dialect list = [ 2 arbitrary chars ] + optionally "NT LM 0.12" before or after
/// layout 0: [XY]   1: [XY, NT LM 0.12]   2: [NT LM 0.12, XY]
fn smb1_negotiate(layout: u8) {
    log::set_max_level(log::LevelFilter::Off);
    let mut d: [u8; 64] = kani::any();
    d[0] = 0; d[1] = 0;
    d[4] = 0xff; d[5] = b'S'; d[6] = b'M'; d[7] = b'B';
    d[8] = 0x72;
    let is_response = d[13] & 0x80 != 0; // reply flag symbolic: a COMPLETE message marked as a response must not be answered
    let x: u8 = kani::any();
    let y: u8 = kani::any();
    kani::assume(x != 0 && y != 0 && x < 0x80 && y < 0x80);
    let xy = [2u8, x, y, 0];
    let nt: &[u8] = b"\x02NT LM 0.12\x00";
    let mut at = 39;
    let count: usize;
    let want_index: Option<usize>;
    match layout {
        0 => { at = put(&mut d, at, &xy); count = 1; want_index = None; }
        1 => { at = put(&mut d, at, &xy); at = put(&mut d, at, nt); count = 2; want_index = Some(1); }
        _ => { at = put(&mut d, at, nt); at = put(&mut d, at, &xy); count = 2; want_index = Some(0); }
    }
    let bc = at - 39;
    d[36] = kani::any(); // WordCount (not interpreted)
    d[37] = bc as u8; d[38] = 0;
    let r = repl_smb1(&d[..at], &ms(), &ClientInfo::new(), None);
    if is_response {
        assert!(r.is_none(), "C12/C17: complete SMB1 message carrying the reply flag answered");
        kani::cover!(true, "C12 complete smb1 response ignored");
        return;
    }
    let r = match r {
        Some(r) => r,
        None => { assert!(false, "C17: SMB1 Negotiate request not answered"); return; }
    };
    check_smb1_frame(&r, &d);
    assert!(r[36] == 17, "C17: Negotiate response word count");
    let idx = le16(&r[37..39]);
    assert!(idx < count, "C17: selected dialect index is not one the client offered");
    if let Some(w) = want_index {
        assert!(idx == w, "C17: selected dialect is not the supported dialect the client offered");
    }
    let bc_off = 36 + 1 + 34;
    assert!(r.len() >= bc_off + 2, "C17: Negotiate response truncated");
    assert!(le16(&r[bc_off..bc_off + 2]) == r.len() - bc_off - 2, "C17: ByteCount differs from the bytes present (GUID + security blob)");
    assert!(r[bc_off - 1] == 0, "C17: challenge length must be 0 with extended security");
    kani::cover!(true, "smb1 negotiate answered");
}

/// SMB1 Session Setup (extended security) with a security blob of `bl` >= 1 arbitrary bytes
fn smb1_session_setup(bl: usize) {
    log::set_max_level(log::LevelFilter::Off);
    let mut d: [u8; 72] = kani::any();
    d[0] = 0; d[1] = 0;
    d[4] = 0xff; d[5] = b'S'; d[6] = b'M'; d[7] = b'B';
    d[8] = 0x73;
    let is_response = d[13] & 0x80 != 0;
    // body: WordCount(1) AndX(1) Res(1) AndXOff(2) MaxBuf(2) MaxMpx(2) Vc(2) SessKey(4) SecLen(2) Res(4) Caps(4) ByteCount(2)
    d[36 + 15] = bl as u8; d[36 + 16] = 0;
    let n = 36 + 27 + bl;
    let r = repl_smb1(&d[..n], &ms(), &ClientInfo::new(), None);
    if is_response {
        assert!(r.is_none(), "C12/C17: complete SMB1 message carrying the reply flag answered");
        return;
    }
    let r = match r {
        Some(r) => r,
        None => { assert!(false, "C17: SMB1 Session-Setup request not answered"); return; }
    };
    check_smb1_frame(&r, &d);
    assert!(r[36] == 4, "C17: Session-Setup response word count");
    let sec_len = le16(&r[36 + 7..36 + 9]);
    let byte_count = le16(&r[36 + 9..36 + 11]);
    assert!(byte_count == r.len() - (36 + 11), "C17: ByteCount differs from the bytes present");
    assert!(sec_len <= byte_count, "C17: security blob length exceeds ByteCount");
    // the blob actually present starts right after ByteCount: an NTLMSSP challenge in SPNEGO
    assert!(r[36 + 11] == 0xa1, "C17: security blob missing");
    kani::cover!(true, "smb1 session setup answered");
}

/// SMB1 gate: reply flag set, or a command other than Negotiate / Session-Setup -> silence
fn smb1_gate() {
    let mut d: [u8; 48] = kani::any();
    d[0] = 0; d[1] = 0;
    d[4] = 0xff; d[5] = b'S'; d[6] = b'M'; d[7] = b'B';
    kani::assume(d[13] & 0x80 != 0 || (d[8] != 0x72 && d[8] != 0x73));
    let r = repl_smb1(&d[..48], &ms(), &ClientInfo::new(), None);
    assert!(r.is_none(), "C17/C12: SMB1 response or unsupported command answered");
    kani::cover!(d[13] & 0x80 != 0 && d[8] == 0x72, "C12 smb1 response ignored");
    kani::cover!(d[13] & 0x80 == 0, "other smb1 command ignored");
}

fn check_smb2_frame(r: &[u8], req: &[u8]) {
    assert!(r.len() >= 68, "C17: SMB2 reply shorter than NetBIOS + SMB2 header");
    assert!(r[0] == 0, "C17: NetBIOS message type is not SESSION MESSAGE");
    assert!(((r[1] as usize & 1) << 16 | (r[2] as usize) << 8 | r[3] as usize) == r.len() - 4, "C17: NetBIOS length differs from the bytes that follow");
    assert!(r[4] == 0xfe && r[5] == b'S' && r[6] == b'M' && r[7] == b'B', "C17: not an SMB2 header");
    assert!(le16(&r[8..10]) == 64, "C17: SMB2 header structure size");
    assert!(r[16] == req[16] && r[17] == req[17], "C17: SMB2 command not echoed");
    assert!(r[20] & 1 != 0, "C17: SMB2 response flag not set");
    let i: usize = kani::any();
    kani::assume(i < 24);
    assert!(r[28 + i] == req[28 + i], "C17: MessageId / AsyncId / SessionId not echoed");
}

/// SMB2 Negotiate with two arbitrary dialect revisions
fn smb2_negotiate() {
    log::set_max_level(log::LevelFilter::Off);
    let mut d: [u8; 108] = kani::any();
    d[0] = 0; d[1] = 0;
    d[4] = 0xfe; d[5] = b'S'; d[6] = b'M'; d[7] = b'B';
    d[16] = 0; d[17] = 0; // command NEGOTIATE
    let is_response = d[20] & 1 != 0; // all 32 flag bits symbolic
    d[68 + 2] = 2; d[68 + 3] = 0; // DialectCount = 2
    let d0 = le16(&d[104..106]) as u16;
    let d1 = le16(&d[106..108]) as u16;
    kani::assume(d0 != d1);
    let r = repl_smb2(&d[..108], &ms(), &ClientInfo::new(), None);
    if is_response {
        assert!(r.is_none(), "C12/C17: complete SMB2 message carrying the response flag answered");
        kani::cover!(d[20] != 1, "C12 complete smb2 response with further flag bits ignored");
        return;
    }
    let supported = |x: u16| x == 0x0202 || x == 0x0210 || x == 0x02ff || x == 0x0300 || x == 0x0302 || x == 0x0310 || x == 0x0311;
    match r {
        Some(r) => {
            assert!(supported(d0) || supported(d1), "C17: SMB2 Negotiate answered although no offered dialect is supported");
            check_smb2_frame(&r, &d);
            let b = &r[68..];
            assert!(le16(&b[0..2]) == 65, "C17: Negotiate response structure size");
            let chosen = le16(&b[4..6]) as u16;
            assert!(chosen == d0 || chosen == d1, "C17: selected SMB2 dialect was not offered by the client");
            let off = le16(&b[56..58]);
            let len = le16(&b[58..60]);
            assert!(off == 64 + 64, "C17: security buffer offset does not point at the blob");
            assert!(4 + off + len == r.len(), "C17: security blob offset/length inconsistent with the blob present");
            kani::cover!(true, "smb2 negotiate answered");
        }
        None => {
            assert!(!supported(d0) && !supported(d1), "C17: SMB2 Negotiate offering a supported dialect not answered");
            kani::cover!(true, "no common dialect: silence");
        }
    }
}

/// SMB2 Session Setup with a security blob of `bl` >= 1 arbitrary bytes
fn smb2_session_setup(bl: usize) {
    log::set_max_level(log::LevelFilter::Off);
    let mut d: [u8; 100] = kani::any();
    d[0] = 0; d[1] = 0;
    d[4] = 0xfe; d[5] = b'S'; d[6] = b'M'; d[7] = b'B';
    d[16] = 1; d[17] = 0; // command SESSION_SETUP
    let is_response = d[20] & 1 != 0;
    // body: StructureSize(2) Flags(1) SecMode(1) Caps(4) Channel(4) SecOff(2) SecLen(2) PrevSession(8)
    d[68 + 14] = bl as u8; d[68 + 15] = 0;
    let n = 68 + 24 + bl;
    let r = repl_smb2(&d[..n], &ms(), &ClientInfo::new(), None);
    if is_response {
        assert!(r.is_none(), "C12/C17: complete SMB2 message carrying the response flag answered");
        return;
    }
    let r = match r {
        Some(r) => r,
        None => { assert!(false, "C17: SMB2 Session-Setup request not answered"); return; }
    };
    check_smb2_frame(&r, &d);
    let b = &r[68..];
    assert!(le16(&b[0..2]) == 9, "C17: Session-Setup response structure size");
    let off = le16(&b[4..6]);
    let len = le16(&b[6..8]);
    assert!(off == 64 + 8, "C17: security buffer offset does not point at the blob");
    assert!(4 + off + len == r.len(), "C17: security blob offset/length inconsistent with the blob present");
    kani::cover!(true, "smb2 session setup answered");
}

fn smb2_gate() {
    let mut d: [u8; 80] = kani::any();
    d[0] = 0; d[1] = 0;
    d[4] = 0xfe; d[5] = b'S'; d[6] = b'M'; d[7] = b'B';
    let cmd = le16(&d[16..18]);
    kani::assume(d[20] & 1 != 0 || cmd > 1);
    let r = repl_smb2(&d[..80], &ms(), &ClientInfo::new(), None);
    assert!(r.is_none(), "C17/C12: SMB2 response or unsupported command answered");
    kani::cover!(d[20] & 1 != 0 && cmd == 0, "C12 smb2 response ignored");
    kani::cover!(d[20] & 1 == 0, "other smb2 command ignored");
}

//# harness: c17_smb1_negotiate_xy
//# props: C17 C01
//# tier: thorough
//# encodes: proto::smb::repl_smb1, NBTSession::{parse,repl}, SMB1Header::{parse,repl,get_payload}, SMB1NegotiateRequest::{parse,repl}, SMB1SessionSetupRequest::{parse,repl}, PacketDissector
//# bounds: NetBIOS header (length bytes symbolic) + SMB1 header with all ids/flags symbolic (command 0x72, request) + dialect list [one unknown 2-character dialect]
//# stubs: std::time::SystemTime::now -> arbitrary instant between 1970 and 2500
//# out: dialect strings other than a 2-character unknown dialect and NT LM 0.12; more than 2 dialects
//# cover: smb1 negotiate answered
#[kani::proof]
#[kani::unwind(120)]
#[kani::stub(std::time::SystemTime::now, crate::verif_util::system_time_now_stub)]
fn c17_smb1_negotiate_xy() {
    smb1_negotiate(0)
}

//# harness: c17_smb1_negotiate_xy_nt
//# props: C17 C12 C01 C19
//# tier: quick
//# encodes: proto::smb::repl_smb1, NBTSession::{parse,repl}, SMB1Header::{parse,repl,get_payload}, SMB1NegotiateRequest::{parse,repl}, SMB1SessionSetupRequest::{parse,repl}, PacketDissector
//# bounds: as above with dialect list [unknown 2-character dialect, NT LM 0.12]
//# stubs: std::time::SystemTime::now -> arbitrary instant between 1970 and 2500
//# cover: smb1 negotiate answered
#[kani::proof]
#[kani::unwind(120)]
#[kani::stub(std::time::SystemTime::now, crate::verif_util::system_time_now_stub)]
fn c17_smb1_negotiate_xy_nt() {
    smb1_negotiate(1)
}

//# harness: c17_smb1_negotiate_nt_xy
//# props: C17
//# tier: thorough
//# encodes: proto::smb::repl_smb1, NBTSession::{parse,repl}, SMB1Header::{parse,repl,get_payload}, SMB1NegotiateRequest::{parse,repl}, SMB1SessionSetupRequest::{parse,repl}, PacketDissector
//# bounds: as above with dialect list [NT LM 0.12, unknown 2-character dialect]
//# stubs: std::time::SystemTime::now -> arbitrary instant between 1970 and 2500
//# cover: smb1 negotiate answered
#[kani::proof]
#[kani::unwind(120)]
#[kani::stub(std::time::SystemTime::now, crate::verif_util::system_time_now_stub)]
fn c17_smb1_negotiate_nt_xy() {
    smb1_negotiate(2)
}

//# harness: c17_smb1_session_setup
//# props: C17 C01
//# tier: quick
//# encodes: proto::smb::repl_smb1, NBTSession::{parse,repl}, SMB1Header::{parse,repl,get_payload}, SMB1NegotiateRequest::{parse,repl}, SMB1SessionSetupRequest::{parse,repl}, PacketDissector
//# bounds: NetBIOS + SMB1 header (command 0x73, request, ids symbolic) + Session-Setup AndX body with every field symbolic, security blob length 2 with arbitrary bytes
//# out: security blob length 0 (the dissector then never completes; the property's wording does not settle it); other blob lengths (the blob is skipped by a counter)
//# cover: smb1 session setup answered
#[kani::proof]
#[kani::unwind(120)]
fn c17_smb1_session_setup() {
    smb1_session_setup(2)
}

//# harness: c17_smb1_gate
//# props: C17 C12 C01
//# tier: quick
//# encodes: proto::smb::repl_smb1, NBTSession::{parse,repl}, SMB1Header::{parse,repl,get_payload}, SMB1NegotiateRequest::{parse,repl}, SMB1SessionSetupRequest::{parse,repl}, PacketDissector
//# bounds: NetBIOS + SMB1 header + 12 body bytes, all symbolic, with the reply flag set or a command outside {0x72,0x73} (all 256 commands)
//# cover: C12 smb1 response ignored
//# cover: other smb1 command ignored
#[kani::proof]
#[kani::unwind(120)]
fn c17_smb1_gate() {
    smb1_gate()
}

//# harness: c17_smb2_negotiate
//# props: C17 C12 C01 C19
//# tier: quick
//# encodes: proto::smb::repl_smb2, NBTSession::{parse,repl}, SMB2Header::{parse,repl,get_payload}, SMB2NegotiateRequest::{parse,repl}, SMB2SessionSetupRequest::{parse,repl}, PacketDissector
//# bounds: NetBIOS + SMB2 header (all ids symbolic, command 0, request) + Negotiate body with every field symbolic, DialectCount 2 and two arbitrary distinct dialect revisions (65536 x 65535 pairs)
//# stubs: std::time::SystemTime::now -> arbitrary instant between 1970 and 2500
//# out: duplicate dialect revisions and dialect counts other than 2 (see known findings); negotiate contexts
//# cover: smb2 negotiate answered
//# cover: no common dialect: silence
#[kani::proof]
#[kani::unwind(120)]
#[kani::stub(std::time::SystemTime::now, crate::verif_util::system_time_now_stub)]
fn c17_smb2_negotiate() {
    smb2_negotiate()
}

//# harness: c17_smb2_session_setup
//# props: C17 C01
//# tier: quick
//# encodes: proto::smb::repl_smb2, NBTSession::{parse,repl}, SMB2Header::{parse,repl,get_payload}, SMB2NegotiateRequest::{parse,repl}, SMB2SessionSetupRequest::{parse,repl}, PacketDissector
//# bounds: NetBIOS + SMB2 header (command 1, request, ids symbolic) + Session-Setup body with every field symbolic, security blob of 3 arbitrary bytes
//# cover: smb2 session setup answered
#[kani::proof]
#[kani::unwind(120)]
fn c17_smb2_session_setup() {
    smb2_session_setup(3)
}

//# harness: c17_smb2_gate
//# props: C17 C12 C01
//# tier: quick
//# encodes: proto::smb::repl_smb2, NBTSession::{parse,repl}, SMB2Header::{parse,repl,get_payload}, SMB2NegotiateRequest::{parse,repl}, SMB2SessionSetupRequest::{parse,repl}, PacketDissector
//# bounds: NetBIOS + SMB2 header + 12 body bytes, all symbolic, with the response flag set or a command outside {0,1} (all 65536 commands)
//# cover: C12 smb2 response ignored
//# cover: other smb2 command ignored
#[kani::proof]
#[kani::unwind(120)]
fn c17_smb2_gate() {
    smb2_gate()
}
