//@ target: src/proto/smb.rs
//@ mod: verif_smb
// The real SMB responders `repl_smb1` / `repl_smb2` (byte-wise NetBIOS / SMB header /
// request dissectors + reply builders): framing, correlation fields, embedded lengths and
// offsets, dialect choice, request/response gate (C17, C12, C01).
use crate::client::ClientInfo;
use crate::verif_util::*;
use crate::Masscanned;
use pnet::util::MacAddr;

fn le16(b: &[u8]) -> usize {
    b[0] as usize | (b[1] as usize) << 8
}
fn ms() -> Masscanned<'static> {
    ms_plain([0, 0], MacAddr::new(0, 1, 2, 3, 4, 5))
}
fn put(dst: &mut [u8], at: usize, src: &[u8]) -> usize {
    let mut i = 0;
    while i < src.len() {
        dst[at + i] = src[i];
        i += 1;
    }
    at + src.len()
}

/// checks NetBIOS framing + SMB1 header of a reply against the 36 request bytes
fn check_smb1_frame(r: &[u8], req: &[u8]) {
    assert!(r.len() >= 36, "C17: SMB1 reply shorter than NetBIOS + SMB header");
    assert!(r[0] == 0, "C17: NetBIOS message type is not SESSION MESSAGE");
    assert!(((r[1] as usize & 1) << 16 | (r[2] as usize) << 8 | r[3] as usize) == r.len() - 4, "C17: NetBIOS length differs from the bytes that follow");
    assert!(r[4] == 0xff && r[5] == b'S' && r[6] == b'M' && r[7] == b'B', "C17: not an SMB1 header");
    assert!(r[8] == req[8], "C17: SMB1 command not echoed");
    assert!(r[13] & 0x80 != 0, "C17: reply flag not set");
    assert!(r[16] == req[16] && r[17] == req[17], "C17: PIDHigh not echoed");
    assert!(r[28] == req[28] && r[29] == req[29], "C17: TID not echoed");
    assert!(r[30] == req[30] && r[31] == req[31], "C17: PIDLow not echoed");
    assert!(r[32] == req[32] && r[33] == req[33], "C17: UID not echoed");
    assert!(r[34] == req[34] && r[35] == req[35], "C17: MID not echoed");
}

/// SMB1 Negotiate: dialect list = [ 2 arbitrary chars ] + optionally "NT LM 0.12" before or after
/// layout 0: [XY]   1: [XY, NT LM 0.12]   2: [NT LM 0.12, XY]
fn smb1_negotiate(layout: u8) {
    log::set_max_level(log::LevelFilter::Off);
    let mut d: [u8; 64] = kani::any();
    d[0] = 0; d[1] = 0;
    d[4] = 0xff; d[5] = b'S'; d[6] = b'M'; d[7] = b'B';
    d[8] = 0x72;
    let is_response = d[13] & 0x80 != 0; // reply flag symbolic: a COMPLETE message marked as a response must not be answered
    // dialect string bytes are concrete: NUL terminates a dialect, so they drive control flow
    let xy = [2u8, b'X', b'Y', 0];
    let nt: &[u8] = b"\x02NT LM 0.12\x00";
    let mut at = 39;
    let count: usize;
    let want_index: Option<usize>;
    match layout {
        0 => { at = put(&mut d, at, &xy); count = 1; want_index = None; }
        1 => { at = put(&mut d, at, &xy); at = put(&mut d, at, nt); count = 2; want_index = Some(1); }
        _ => { at = put(&mut d, at, nt); at = put(&mut d, at, &xy); count = 2; want_index = Some(0); }
    }
    let bc = at - 39;
    d[36] = kani::any(); // WordCount (not interpreted)
    d[37] = bc as u8; d[38] = 0;
    let r = repl_smb1(&d[..at], &ms(), &ClientInfo::new(), None);
    if is_response {
        assert!(r.is_none(), "C12/C17: complete SMB1 message carrying the reply flag answered");
        kani::cover!(true, "C12 complete smb1 response ignored");
        return;
    }
    let r = match r {
        Some(r) => r,
        None => { assert!(false, "C17: SMB1 Negotiate request not answered"); return; }
    };
    check_smb1_frame(&r, &d);
    assert!(r[36] == 17, "C17: Negotiate response word count");
    let idx = le16(&r[37..39]);
    assert!(idx < count, "C17: selected dialect index is not one the client offered");
    if let Some(w) = want_index {
        assert!(idx == w, "C17: selected dialect is not the supported dialect the client offered");
    }
    let bc_off = 36 + 1 + 34;
    assert!(r.len() >= bc_off + 2, "C17: Negotiate response truncated");
    assert!(le16(&r[bc_off..bc_off + 2]) == r.len() - bc_off - 2, "C17: ByteCount differs from the bytes present (GUID + security blob)");
    assert!(r[bc_off - 1] == 0, "C17: challenge length must be 0 with extended security");
    kani::cover!(true, "smb1 negotiate answered");
}

/// SMB1 Session Setup (extended security) with a security blob of `bl` >= 1 arbitrary bytes
fn smb1_session_setup(bl: usize) {
    log::set_max_level(log::LevelFilter::Off);
    let mut d: [u8; 72] = kani::any();
    d[0] = 0; d[1] = 0;
    d[4] = 0xff; d[5] = b'S'; d[6] = b'M'; d[7] = b'B';
    d[8] = 0x73;
    let is_response = d[13] & 0x80 != 0;
    // body: WordCount(1) AndX(1) Res(1) AndXOff(2) MaxBuf(2) MaxMpx(2) Vc(2) SessKey(4) SecLen(2) Res(4) Caps(4) ByteCount(2)
    d[36 + 15] = bl as u8; d[36 + 16] = 0;
    let n = 36 + 27 + bl;
    let r = repl_smb1(&d[..n], &ms(), &ClientInfo::new(), None);
    if is_response {
        assert!(r.is_none(), "C12/C17: complete SMB1 message carrying the reply flag answered");
        return;
    }
    let r = match r {
        Some(r) => r,
        None => { assert!(false, "C17: SMB1 Session-Setup request not answered"); return; }
    };
    check_smb1_frame(&r, &d);
    assert!(r[36] == 4, "C17: Session-Setup response word count");
    let sec_len = le16(&r[36 + 7..36 + 9]);
    let byte_count = le16(&r[36 + 9..36 + 11]);
    assert!(byte_count == r.len() - (36 + 11), "C17: ByteCount differs from the bytes present");
    assert!(sec_len <= byte_count, "C17: security blob length exceeds ByteCount");
    kani::cover!(true, "smb1 session setup answered");
}

/// SMB1 gate: reply flag set, or a command other than Negotiate / Session-Setup -> silence
fn smb1_gate() {
    // the command byte is concrete per grid point (it selects the payload dissector)
    let cmds: [u8; 6] = [0x00, 0x25, 0x71, 0x74, 0x75, 0xff];
    let mut k = 0;
    while k < cmds.len() {
        let mut d: [u8; 48] = kani::any();
        d[0] = 0; d[1] = 0;
        d[4] = 0xff; d[5] = b'S'; d[6] = b'M'; d[7] = b'B';
        d[8] = cmds[k];
        let r = repl_smb1(&d[..48], &ms(), &ClientInfo::new(), None);
        assert!(r.is_none(), "C17: SMB1 command other than Negotiate / Session-Setup answered");
        k += 1;
    }
    kani::cover!(true, "other smb1 command ignored");
}

fn check_smb2_frame(r: &[u8], req: &[u8]) {
    assert!(r.len() >= 68, "C17: SMB2 reply shorter than NetBIOS + SMB2 header");
    assert!(r[0] == 0, "C17: NetBIOS message type is not SESSION MESSAGE");
    assert!(((r[1] as usize & 1) << 16 | (r[2] as usize) << 8 | r[3] as usize) == r.len() - 4, "C17: NetBIOS length differs from the bytes that follow");
    assert!(r[4] == 0xfe && r[5] == b'S' && r[6] == b'M' && r[7] == b'B', "C17: not an SMB2 header");
    assert!(le16(&r[8..10]) == 64, "C17: SMB2 header structure size");
    assert!(r[16] == req[16] && r[17] == req[17], "C17: SMB2 command not echoed");
    assert!(r[20] & 1 != 0, "C17: SMB2 response flag not set");
    let i: usize = kani::any();
    kani::assume(i < 24);
    assert!(r[28 + i] == req[28 + i], "C17: MessageId / AsyncId / SessionId not echoed");
}

/// SMB2 Negotiate with two arbitrary dialect revisions
fn smb2_negotiate() {
    log::set_max_level(log::LevelFilter::Off);
    let mut d: [u8; 108] = kani::any();
    d[0] = 0; d[1] = 0;
    d[4] = 0xfe; d[5] = b'S'; d[6] = b'M'; d[7] = b'B';
    d[16] = 0; d[17] = 0; // command NEGOTIATE
    let is_response = d[20] & 1 != 0; // all 32 flag bits symbolic
    d[68 + 2] = 2; d[68 + 3] = 0; // DialectCount = 2
    let d0 = le16(&d[104..106]) as u16;
    let d1 = le16(&d[106..108]) as u16;
    kani::assume(d0 != d1);
    let r = repl_smb2(&d[..108], &ms(), &ClientInfo::new(), None);
    if is_response {
        assert!(r.is_none(), "C12/C17: complete SMB2 message carrying the response flag answered");
        kani::cover!(d[20] != 1, "C12 complete smb2 response with further flag bits ignored");
        return;
    }
    let supported = |x: u16| x == 0x0202 || x == 0x0210 || x == 0x02ff || x == 0x0300 || x == 0x0302 || x == 0x0310 || x == 0x0311;
    match r {
        Some(r) => {
            assert!(supported(d0) || supported(d1), "C17: SMB2 Negotiate answered although no offered dialect is supported");
            check_smb2_frame(&r, &d);
            let b = &r[68..];
            assert!(le16(&b[0..2]) == 65, "C17: Negotiate response structure size");
            let chosen = le16(&b[4..6]) as u16;
            assert!(chosen == d0 || chosen == d1, "C17: selected SMB2 dialect was not offered by the client");
            let off = le16(&b[56..58]);
            let len = le16(&b[58..60]);
            assert!(off == 64 + 64, "C17: security buffer offset does not point at the blob");
            assert!(4 + off + len == r.len(), "C17: security blob offset/length inconsistent with the blob present");
            kani::cover!(true, "smb2 negotiate answered");
        }
        None => {
            assert!(!supported(d0) && !supported(d1), "C17: SMB2 Negotiate offering a supported dialect not answered");
            kani::cover!(true, "no common dialect: silence");
        }
    }
}

/// SMB2 Session Setup with a security blob of `bl` >= 1 arbitrary bytes
fn smb2_session_setup(bl: usize) {
    log::set_max_level(log::LevelFilter::Off);
    let mut d: [u8; 100] = kani::any();
    d[0] = 0; d[1] = 0;
    d[4] = 0xfe; d[5] = b'S'; d[6] = b'M'; d[7] = b'B';
    d[16] = 1; d[17] = 0; // command SESSION_SETUP
    let is_response = d[20] & 1 != 0;
    // body: StructureSize(2) Flags(1) SecMode(1) Caps(4) Channel(4) SecOff(2) SecLen(2) PrevSession(8)
    d[68 + 14] = bl as u8; d[68 + 15] = 0;
    let n = 68 + 24 + bl;
    let r = repl_smb2(&d[..n], &ms(), &ClientInfo::new(), None);
    if is_response {
        assert!(r.is_none(), "C12/C17: complete SMB2 message carrying the response flag answered");
        return;
    }
    let r = match r {
        Some(r) => r,
        None => { assert!(false, "C17: SMB2 Session-Setup request not answered"); return; }
    };
    check_smb2_frame(&r, &d);
    let b = &r[68..];
    assert!(le16(&b[0..2]) == 9, "C17: Session-Setup response structure size");
    let off = le16(&b[4..6]);
    let len = le16(&b[6..8]);
    assert!(off == 64 + 8, "C17: security buffer offset does not point at the blob");
    assert!(4 + off + len == r.len(), "C17: security blob offset/length inconsistent with the blob present");
    kani::cover!(true, "smb2 session setup answered");
}

fn smb2_gate() {
    let cmds: [u16; 2] = [0x0002, 0xffff];
    let mut k = 0;
    while k < cmds.len() {
        let mut d: [u8; 72] = kani::any();
        d[0] = 0; d[1] = 0;
        d[4] = 0xfe; d[5] = b'S'; d[6] = b'M'; d[7] = b'B';
        d[16] = cmds[k] as u8; d[17] = (cmds[k] >> 8) as u8;
        let r = repl_smb2(&d[..72], &ms(), &ClientInfo::new(), None);
        assert!(r.is_none(), "C17: SMB2 command other than Negotiate / Session-Setup answered");
        k += 1;
    }
    kani::cover!(true, "other smb2 command ignored");
}





//# harness: c17_smb1_gate
//# props: C17 C12 C01
//# tier: quick
//# encodes: proto::smb::repl_smb1, NBTSession::{parse,repl}, SMB1Header::{parse,repl,get_payload}, SMB1NegotiateRequest::{parse,repl}, SMB1SessionSetupRequest::{parse,repl}, PacketDissector
//# bounds: NetBIOS + SMB1 header + 12 body bytes, all symbolic (incl. the reply flag), for the commands 00, 25, 71, 74, 75, ff (the command byte is concrete per grid point: it selects the payload dissector); complete messages carrying the reply flag are decided by c17_smb1_negotiate_* / c17_smb1_session_setup
//# cover: other smb1 command ignored
#[kani::proof]
#[kani::unwind(120)]
fn c17_smb1_gate() {
    smb1_gate()
}



//# harness: c17_smb2_gate
//# props: C17 C01
//# tier: extended
//# timeout: 1400
//# encodes: proto::smb::repl_smb2, NBTSession::{parse,repl}, SMB2Header::{parse,repl,get_payload}, SMB2NegotiateRequest::{parse,repl}, SMB2SessionSetupRequest::{parse,repl}, PacketDissector
//# bounds: NetBIOS + SMB2 header + 12 body bytes, all symbolic (incl. all 32 flag bits), for the commands 2 and 0xffff (concrete per grid point; the gate itself is decided for all 65536 commands by c17_smb2_header); complete messages carrying the response flag are decided by c17_smb2_negotiate / c17_smb2_session_setup
//# cover: other smb2 command ignored
#[kani::proof]
#[kani::unwind(120)]
fn c17_smb2_gate() {
    smb2_gate()
}

// ------------------------------------------------------------------------------------------
// Component lemmas.  The whole-message harnesses above (NetBIOS + header + body through
// three nested byte-wise dissectors, 50-108 bytes) do not finish (measured: 400 s and 1500 s
// timeouts; ~17k symex steps per byte).  As planned in round 0 the claim is decomposed:
//   header lemma   : the real header dissector over all header bytes (symbolic) = the
//                    little-endian fields, and the payload gate (response flag, command);
//   reply lemma    : the real `repl` chain NBTSession -> SMBxHeader -> request `repl` on a
//                    message OBJECT whose header fields are symbolic and whose request
//                    payload is built directly in its End state.
// ------------------------------------------------------------------------------------------
fn smb1_header_lemma() {
    let mut d: [u8; 32] = kani::any();
    d[0] = 0xff; d[1] = b'S'; d[2] = b'M'; d[3] = b'B';
    let mut h = SMB1Header::new();
    let mut i = 0;
    while i < 32 {
        h.parse(&d[i]);
        i += 1;
    }
    assert!(matches!(h.d.state, SMB1HeaderState::End), "C17: 32-byte SMB1 header not parsed to End");
    assert!(h.command == d[4] && h.flags == d[9], "C17: SMB1 command / flags misparsed");
    assert!(h.pid_high == le16(&d[12..14]) as u16 && h.tid == le16(&d[24..26]) as u16 && h.pid_low == le16(&d[26..28]) as u16
        && h.uid == le16(&d[28..30]) as u16 && h.mid == le16(&d[30..32]) as u16, "C17: SMB1 correlation fields misparsed");
    // payload gate
    let is_resp = d[9] & 0x80 != 0;
    let got = h.get_payload().is_some();
    let want = !is_resp && (d[4] == 0x72 || d[4] == 0x73);
    assert!(got == want, "C17/C12: SMB1 payload gate (reply flag, command) wrong");
    kani::cover!(is_resp && d[4] == 0x72, "C12 smb1 response gated");
    kani::cover!(got, "smb1 request admitted");
    std::mem::forget(h);
}

fn smb1_reply_lemma(negotiate: bool, layout: u8) {
    log::set_max_level(log::LevelFilter::Off);
    let mut h = SMB1Header::new();
    h.d.state = SMB1HeaderState::End;
    h.command = if negotiate { 0x72 } else { 0x73 };
    h.pid_high = kani::any();
    h.tid = kani::any();
    h.pid_low = kani::any();
    h.uid = kani::any();
    h.mid = kani::any();
    h.flags = kani::any();
    h.flags2 = kani::any();
    let mut count = 0usize;
    let mut want_index: Option<usize> = None;
    if negotiate {
        let mut n = SMB1NegotiateRequest::new();
        n.d.state = SMB1NegotiateRequestState::End;
        let unk = SMB1Dialect { buffer_format: 2, dialect_string: String::from("XY") };
        let nt = SMB1Dialect { buffer_format: 2, dialect_string: String::from("NT LM 0.12") };
        match layout {
            0 => { n.dialects.push(unk); count = 1; }
            1 => { n.dialects.push(unk); n.dialects.push(nt); count = 2; want_index = Some(1); }
            _ => { n.dialects.push(nt); n.dialects.push(unk); count = 2; want_index = Some(0); }
        }
        h.payload = Some(SMB1Payload::NegotiateRequest(n));
    } else {
        let mut x = SMB1SessionSetupRequest::new();
        x.d.state = SMB1SessionSetupRequestState::End;
        x.security_len = kani::any();
        x.byte_count = kani::any();
        h.payload = Some(SMB1Payload::SessionSetupRequest(x));
    }
    let (pid_high, tid, pid_low, uid, mid) = (h.pid_high, h.tid, h.pid_low, h.uid, h.mid);
    let mut nbt: NBTSession<SMB1Header> = NBTSession::new();
    nbt.d.state = NBTSessionState::End;
    nbt.length = kani::any();
    nbt.payload = Some(h);
    let r = match nbt.repl(&ms(), &ClientInfo::new(), None) {
        Some(r) => r,
        None => { assert!(false, "C17: complete SMB1 request not answered"); return; }
    };
    assert!(r.len() >= 36 && r[0] == 0, "C17: SMB1 reply framing");
    assert!(((r[1] as usize & 1) << 16 | (r[2] as usize) << 8 | r[3] as usize) == r.len() - 4, "C17: NetBIOS length differs from the bytes that follow");
    assert!(r[4] == 0xff && r[5] == b'S' && r[6] == b'M' && r[7] == b'B', "C17: not an SMB1 header");
    assert!(r[8] == if negotiate { 0x72 } else { 0x73 }, "C17: SMB1 command not echoed");
    assert!(r[13] & 0x80 != 0, "C17: reply flag not set");
    assert!(le16(&r[16..18]) as u16 == pid_high && le16(&r[28..30]) as u16 == tid && le16(&r[30..32]) as u16 == pid_low
        && le16(&r[32..34]) as u16 == uid && le16(&r[34..36]) as u16 == mid, "C17: PID/TID/UID/MID not echoed");
    if negotiate {
        assert!(r[36] == 17, "C17: Negotiate response word count");
        let idx = le16(&r[37..39]);
        assert!(idx < count, "C17: selected dialect index is not one the client offered");
        if let Some(w) = want_index {
            assert!(idx == w, "C17: selected dialect is not the supported dialect the client offered");
        }
        let bc_off = 36 + 1 + 34;
        assert!(r.len() >= bc_off + 2 && le16(&r[bc_off..bc_off + 2]) == r.len() - bc_off - 2, "C17: ByteCount differs from the bytes present (GUID + security blob)");
        assert!(r[bc_off - 1] == 0, "C17: challenge length must be 0 with extended security");
    } else {
        assert!(r[36] == 4, "C17: Session-Setup response word count");
        let sec_len = le16(&r[36 + 7..36 + 9]);
        let byte_count = le16(&r[36 + 9..36 + 11]);
        assert!(byte_count == r.len() - (36 + 11), "C17: ByteCount differs from the bytes present");
        assert!(sec_len <= byte_count && sec_len >= 1, "C17: security blob length inconsistent with ByteCount");
    }
    kani::cover!(true, "smb1 reply checked");
}

fn smb2_header_lemma() {
    let mut d: [u8; 64] = kani::any();
    d[0] = 0xfe; d[1] = b'S'; d[2] = b'M'; d[3] = b'B';
    let mut h = SMB2Header::new();
    let mut i = 0;
    while i < 64 {
        h.parse(&d[i]);
        i += 1;
    }
    assert!(matches!(h.d.state, SMB2HeaderState::End), "C17: 64-byte SMB2 header not parsed to End");
    assert!(h.command == le16(&d[12..14]) as u16, "C17: SMB2 command misparsed");
    assert!(h.flags as u8 == d[16] && (h.flags >> 8) as u8 == d[17], "C17: SMB2 flags misparsed");
    let k: usize = kani::any();
    kani::assume(k < 8);
    assert!((h.message_id >> (8 * k)) as u8 == d[24 + k] && (h.async_id >> (8 * k)) as u8 == d[32 + k] && (h.session_id >> (8 * k)) as u8 == d[40 + k],
        "C17: MessageId / AsyncId / SessionId misparsed");
    let is_resp = d[16] & 1 != 0;
    let got = h.get_payload().is_some();
    let cmd = le16(&d[12..14]);
    let want = !is_resp && cmd <= 1;
    assert!(got == want, "C17/C12: SMB2 payload gate (response flag, command) wrong");
    kani::cover!(is_resp && cmd == 0 && d[16] != 1, "C12 smb2 response with further flag bits gated");
    kani::cover!(got, "smb2 request admitted");
    std::mem::forget(h);
}

fn smb2_reply_lemma(negotiate: bool) {
    log::set_max_level(log::LevelFilter::Off);
    let mut h = SMB2Header::new();
    h.d.state = SMB2HeaderState::End;
    h.command = if negotiate { 0 } else { 1 };
    h.message_id = kani::any();
    h.async_id = kani::any();
    h.session_id = kani::any();
    h.flags = kani::any();
    h.credit_charge = kani::any();
    let d0: u16 = kani::any();
    let d1: u16 = kani::any();
    if negotiate {
        let mut n = SMB2NegotiateRequest::new();
        n.d.state = SMB2NegotiateRequestState::End;
        n.dialect_count = 2;
        kani::assume(d0 != d1);
        n.dialects.insert(d0);
        n.dialects.insert(d1);
        n.client_guid = kani::any();
        h.payload = Some(SMB2Payload::NegotiateRequest(n));
    } else {
        let mut x = SMB2SessionSetupRequest::new();
        x.d.state = SMB2SetupRequestState::End;
        x.security_len = kani::any();
        h.payload = Some(SMB2Payload::SessionSetupRequest(x));
    }
    let (mid, aid, sid) = (h.message_id, h.async_id, h.session_id);
    let mut nbt: NBTSession<SMB2Header> = NBTSession::new();
    nbt.d.state = NBTSessionState::End;
    nbt.payload = Some(h);
    let r = nbt.repl(&ms(), &ClientInfo::new(), None);
    let supported = |x: u16| x == 0x0202 || x == 0x0210 || x == 0x02ff || x == 0x0300 || x == 0x0302 || x == 0x0310 || x == 0x0311;
    let r = match r {
        Some(r) => r,
        None => {
            assert!(negotiate && !supported(d0) && !supported(d1), "C17: complete SMB2 request not answered although a dialect is supported");
            kani::cover!(true, "no common dialect: silence");
            return;
        }
    };
    if negotiate {
        assert!(supported(d0) || supported(d1), "C17: SMB2 Negotiate answered although no offered dialect is supported");
    }
    assert!(r.len() >= 68 && r[0] == 0, "C17: SMB2 reply framing");
    assert!(((r[1] as usize & 1) << 16 | (r[2] as usize) << 8 | r[3] as usize) == r.len() - 4, "C17: NetBIOS length differs from the bytes that follow");
    assert!(r[4] == 0xfe && r[5] == b'S' && r[6] == b'M' && r[7] == b'B' && le16(&r[8..10]) == 64, "C17: not an SMB2 header");
    assert!(le16(&r[16..18]) == if negotiate { 0 } else { 1 }, "C17: SMB2 command not echoed");
    assert!(r[20] & 1 != 0, "C17: SMB2 response flag not set");
    let k: usize = kani::any();
    kani::assume(k < 8);
    assert!(r[28 + k] == (mid >> (8 * k)) as u8 && r[36 + k] == (aid >> (8 * k)) as u8 && r[44 + k] == (sid >> (8 * k)) as u8,
        "C17: MessageId / AsyncId / SessionId not echoed");
    let b = &r[68..];
    if negotiate {
        assert!(le16(&b[0..2]) == 65, "C17: Negotiate response structure size");
        let chosen = le16(&b[4..6]) as u16;
        assert!(chosen == d0 || chosen == d1, "C17: selected SMB2 dialect was not offered by the client");
        let off = le16(&b[56..58]);
        let len = le16(&b[58..60]);
        assert!(off == 128 && 4 + off + len == r.len(), "C17: security blob offset/length inconsistent with the blob present");
    } else {
        assert!(le16(&b[0..2]) == 9, "C17: Session-Setup response structure size");
        let off = le16(&b[4..6]);
        let len = le16(&b[6..8]);
        assert!(off == 72 && 4 + off + len == r.len(), "C17: security blob offset/length inconsistent with the blob present");
    }
    kani::cover!(true, "smb2 reply checked");
}

//# harness: c17_smb1_header
//# props: C17 C12 C01
//# tier: quick
//# encodes: proto::smb::SMB1Header::{parse,get_payload}, PacketDissector::{read_ule16,read_ule32}
//# bounds: 32 SMB1 header bytes after the magic, all symbolic (command, status, flags incl. the reply flag, flags2, PIDHigh, signature, TID, PIDLow, UID, MID)
//# out: the byte-wise request-body dissectors (word/byte counts, dialect strings, blob skipping) are exercised only by the existing unit tests and by c17_smb*_gate for non-matching commands; SMB2 negotiate with duplicate dialects and session setup with an empty blob never complete in the implementation (see DESIGN.md)
//# cover: C12 smb1 response gated
//# cover: smb1 request admitted
#[kani::proof]
#[kani::unwind(80)]
fn c17_smb1_header() {
    smb1_header_lemma()
}

//# harness: c17_smb1_reply_negotiate_xy_nt
//# props: C17 C01 C19
//# tier: quick
//# encodes: proto::smb::NBTSession::repl, SMB1Header::repl, SMB1NegotiateRequest::repl
//# bounds: message object with symbolic PID/TID/UID/MID/flags and a parsed Negotiate request offering [XY, NT LM 0.12]
//# stubs: std::time::SystemTime::now -> arbitrary instant between 1970 and 2500
//# out: the byte-wise request-body dissectors (word/byte counts, dialect strings, blob skipping) are exercised only by the existing unit tests and by c17_smb*_gate for non-matching commands; SMB2 negotiate with duplicate dialects and session setup with an empty blob never complete in the implementation (see DESIGN.md)
//# cover: smb1 reply checked
#[kani::proof]
#[kani::unwind(80)]
#[kani::stub(std::time::SystemTime::now, crate::verif_util::system_time_now_stub)]
fn c17_smb1_reply_negotiate_xy_nt() {
    smb1_reply_lemma(true, 1)
}

//# harness: c17_smb1_reply_negotiate_nt_xy
//# props: C17
//# tier: thorough
//# encodes: proto::smb::NBTSession::repl, SMB1Header::repl, SMB1NegotiateRequest::repl
//# bounds: as above offering [NT LM 0.12, XY]
//# stubs: std::time::SystemTime::now -> arbitrary instant between 1970 and 2500
//# out: the byte-wise request-body dissectors (word/byte counts, dialect strings, blob skipping) are exercised only by the existing unit tests and by c17_smb*_gate for non-matching commands; SMB2 negotiate with duplicate dialects and session setup with an empty blob never complete in the implementation (see DESIGN.md)
//# cover: smb1 reply checked
#[kani::proof]
#[kani::unwind(80)]
#[kani::stub(std::time::SystemTime::now, crate::verif_util::system_time_now_stub)]
fn c17_smb1_reply_negotiate_nt_xy() {
    smb1_reply_lemma(true, 2)
}

//# harness: c17_smb1_reply_negotiate_xy
//# props: C17
//# tier: thorough
//# encodes: proto::smb::NBTSession::repl, SMB1Header::repl, SMB1NegotiateRequest::repl
//# bounds: as above offering only the unknown dialect [XY]
//# stubs: std::time::SystemTime::now -> arbitrary instant between 1970 and 2500
//# out: the byte-wise request-body dissectors (word/byte counts, dialect strings, blob skipping) are exercised only by the existing unit tests and by c17_smb*_gate for non-matching commands; SMB2 negotiate with duplicate dialects and session setup with an empty blob never complete in the implementation (see DESIGN.md)
//# cover: smb1 reply checked
#[kani::proof]
#[kani::unwind(80)]
#[kani::stub(std::time::SystemTime::now, crate::verif_util::system_time_now_stub)]
fn c17_smb1_reply_negotiate_xy() {
    smb1_reply_lemma(true, 0)
}

//# harness: c17_smb1_reply_session_setup
//# props: C17 C01
//# tier: quick
//# encodes: proto::smb::NBTSession::repl, SMB1Header::repl, SMB1SessionSetupRequest::repl
//# bounds: message object with symbolic PID/TID/UID/MID and a parsed Session-Setup request (blob length / byte count symbolic)
//# out: the byte-wise request-body dissectors (word/byte counts, dialect strings, blob skipping) are exercised only by the existing unit tests and by c17_smb*_gate for non-matching commands; SMB2 negotiate with duplicate dialects and session setup with an empty blob never complete in the implementation (see DESIGN.md)
//# cover: smb1 reply checked
#[kani::proof]
#[kani::unwind(80)]
fn c17_smb1_reply_session_setup() {
    smb1_reply_lemma(false, 0)
}

//# harness: c17_smb2_header
//# props: C17 C12 C01
//# tier: quick
//# encodes: proto::smb::SMB2Header::{parse,get_payload}, PacketDissector::{read_ule16,read_ule32,read_ule64}
//# bounds: 64 SMB2 header bytes after the magic, all symbolic (all 32 flag bits, command, MessageId, AsyncId, SessionId, signature)
//# out: the byte-wise request-body dissectors (word/byte counts, dialect strings, blob skipping) are exercised only by the existing unit tests and by c17_smb*_gate for non-matching commands; SMB2 negotiate with duplicate dialects and session setup with an empty blob never complete in the implementation (see DESIGN.md)
//# cover: C12 smb2 response with further flag bits gated
//# cover: smb2 request admitted
#[kani::proof]
#[kani::unwind(80)]
fn c17_smb2_header() {
    smb2_header_lemma()
}

//# harness: c17_smb2_reply_negotiate
//# props: C17 C01 C19
//# tier: quick
//# encodes: proto::smb::NBTSession::repl, SMB2Header::repl, SMB2NegotiateRequest::repl
//# bounds: message object with symbolic MessageId/AsyncId/SessionId/flags and a parsed Negotiate request offering two arbitrary distinct dialect revisions (65536 x 65535 pairs), client GUID symbolic
//# stubs: std::time::SystemTime::now -> arbitrary instant between 1970 and 2500
//# out: the byte-wise request-body dissectors (word/byte counts, dialect strings, blob skipping) are exercised only by the existing unit tests and by c17_smb*_gate for non-matching commands; SMB2 negotiate with duplicate dialects and session setup with an empty blob never complete in the implementation (see DESIGN.md)
//# cover: smb2 reply checked
//# cover: no common dialect: silence
#[kani::proof]
#[kani::unwind(80)]
#[kani::stub(std::time::SystemTime::now, crate::verif_util::system_time_now_stub)]
fn c17_smb2_reply_negotiate() {
    smb2_reply_lemma(true)
}

//# harness: c17_smb2_reply_session_setup
//# props: C17 C01
//# tier: quick
//# encodes: proto::smb::NBTSession::repl, SMB2Header::repl, SMB2SessionSetupRequest::repl
//# bounds: message object with symbolic ids and a parsed Session-Setup request
//# out: the byte-wise request-body dissectors (word/byte counts, dialect strings, blob skipping) are exercised only by the existing unit tests and by c17_smb*_gate for non-matching commands; SMB2 negotiate with duplicate dialects and session setup with an empty blob never complete in the implementation (see DESIGN.md)
//# cover: smb2 reply checked
#[kani::proof]
#[kani::unwind(80)]
fn c17_smb2_reply_session_setup() {
    smb2_reply_lemma(false)
}
