//@ target: src/proto/rpc.rs
//@ mod: verif_rpc
// The real ONC-RPC parser `rpc_parse` and reply builders `build_repl` / `repl_udp` /
// `repl_tcp` (C16, C11, C12, C01).
use crate::client::ClientInfo;
use crate::proto::{ProtocolState as GenericProtocolState, TCPControlBlock};
use crate::verif_util::*;
use crate::Masscanned;
use pnet::util::MacAddr;
use std::net::{IpAddr, Ipv4Addr, Ipv6Addr};

fn be32(b: &[u8]) -> u32 {
    (b[0] as u32) << 24 | (b[1] as u32) << 16 | (b[2] as u32) << 8 | b[3] as u32
}

fn rpc_ci(v6: bool) -> ClientInfo {
    let mut ci = ClientInfo::new();
    if v6 {
        ci.ip.src = Some(IpAddr::V6(any_ip6()));
        ci.ip.dst = Some(IpAddr::V6(any_ip6()));
    } else {
        ci.ip.src = Some(IpAddr::V4(any_ip4()));
        ci.ip.dst = Some(IpAddr::V4(any_ip4()));
    }
    ci.port.src = Some(kani::any());
    ci.port.dst = Some(kani::any());
    ci
}

/// accepted-reply prologue: xid | reply(1) | accepted(0) | null verifier (flavor 0, len 0)
fn check_prologue(r: &[u8], xid: u32) {
    assert!(r.len() >= 24 && r.len() % 4 == 0, "C16: reply is not XDR aligned / too short");
    assert!(be32(&r[0..4]) == xid, "C16: XID not echoed");
    assert!(be32(&r[4..8]) == 1, "C16: message type is not REPLY");
    assert!(be32(&r[8..12]) == 0, "C16: reply state is not MSG_ACCEPTED");
    assert!(be32(&r[12..16]) == 0 && be32(&r[16..20]) == 0, "C16: verifier is not AUTH_NULL with length 0");
}

/// whole UDP call (40 bytes, AUTH_NULL credentials and verifier) through `repl_udp`.
/// The (version, procedure) pair is CONCRETE per grid point (it selects the code path; a
/// symbolic pair makes CBMC explore the std formatting code of the GETADDR/DUMP paths with a
/// symbolic address - measured: no result in 400 s), everything else - XID, message type, rpc
/// version, program, credential and verifier flavors, contacted address and port - is
/// symbolic.  The accept-state precedence of C16 is the reference.
fn rpc_udp_point(vers: u32, proc_: u32, v6: bool) {
    let mut d: [u8; 40] = kani::any();
    d[16] = (vers >> 24) as u8; d[17] = (vers >> 16) as u8; d[18] = (vers >> 8) as u8; d[19] = vers as u8;
    d[20] = (proc_ >> 24) as u8; d[21] = (proc_ >> 16) as u8; d[22] = (proc_ >> 8) as u8; d[23] = proc_ as u8;
    d[28] = 0; d[29] = 0; d[30] = 0; d[31] = 0;
    d[36] = 0; d[37] = 0; d[38] = 0; d[39] = 0;
    let xid = be32(&d[0..4]);
    let program = be32(&d[12..16]);
    let ci = rpc_ci(v6);
    let masscanned = ms_plain([0, 0], MacAddr::new(0, 1, 2, 3, 4, 5));
    let r = match repl_udp(&d, &masscanned, &ci, None) {
        Some(r) => r,
        None => {
            assert!(false, "C16: complete ONC-RPC call not answered");
            return;
        }
    };
    check_prologue(&r, xid);
    let acc = be32(&r[20..24]);
    if vers < 2 || vers > 4 {
        assert!(acc == 2 && r.len() == 32 && be32(&r[24..28]) == 2 && be32(&r[28..32]) == 4, "C16: version outside 2-4 must get PROG_MISMATCH(2,4)");
    } else if proc_ == 0 {
        assert!(acc == 0 && r.len() == 24, "C16: procedure 0 must get an empty success");
    } else if program != 100000 {
        assert!(acc == 1 && r.len() == 24, "C16: other programs must get PROG_UNAVAIL");
    } else if proc_ == 3 && vers == 2 {
        assert!(acc == 0 && r.len() == 28, "C16: GETPORT v2 reply shape");
        assert!(be32(&r[24..28]) == ci.port.dst.unwrap() as u32, "C16: GETPORT does not advertise the contacted port");
    } else if proc_ != 3 && proc_ != 4 {
        assert!(acc == 5 && r.len() == 24, "C16: other portmapper procedures must get PROC_UNAVAIL");
    }
    kani::cover!(program == 100000, "portmapper program");
    kani::cover!(program != 100000, "foreign program");
}

fn rpc_udp_grid(which: u8, v6: bool) {
    log::set_max_level(log::LevelFilter::Off);
    match which {
        0 => {
            // versions outside 2..=4 (any procedure): PROG_MISMATCH
            rpc_udp_point(0, 0, v6);
            rpc_udp_point(1, 3, v6);
            rpc_udp_point(5, 4, v6);
            rpc_udp_point(104316, 0, v6);
            rpc_udp_point(0xFFFF_FFFF, 7, v6);
        }
        1 => {
            // NULL procedure, and procedures outside {0,3,4} (PROC_UNAVAIL / PROG_UNAVAIL)
            rpc_udp_point(2, 0, v6);
            rpc_udp_point(4, 0, v6);
            rpc_udp_point(2, 1, v6);
            rpc_udp_point(3, 5, v6);
            rpc_udp_point(4, 255, v6);
            rpc_udp_point(3, 0x0100_0003, v6);
        }
        _ => {
            // GETPORT version 2
            rpc_udp_point(2, 3, v6);
        }
    }
}

/// GETADDR (version 3) for a CONCRETE contacted endpoint: the universal address string is
/// the endpoint, XDR-encoded
fn rpc_getaddr_concrete() {
    log::set_max_level(log::LevelFilter::Off);
    let mut d: [u8; 40] = kani::any();
    d[12] = 0; d[13] = 1; d[14] = 0x86; d[15] = 0xa0; // program 100000
    d[16] = 0; d[17] = 0; d[18] = 0; d[19] = 3;
    d[20] = 0; d[21] = 0; d[22] = 0; d[23] = 3;
    d[28] = 0; d[29] = 0; d[30] = 0; d[31] = 0;
    d[36] = 0; d[37] = 0; d[38] = 0; d[39] = 0;
    let mut ci = ClientInfo::new();
    ci.ip.src = Some(IpAddr::V4(Ipv4Addr::new(192, 0, 2, 1)));
    ci.ip.dst = Some(IpAddr::V4(Ipv4Addr::new(10, 0, 0, 1)));
    ci.port.src = Some(1000);
    ci.port.dst = Some(2048);
    let masscanned = ms_plain([0, 0], MacAddr::new(0, 1, 2, 3, 4, 5));
    let r = repl_udp(&d, &masscanned, &ci, None).unwrap();
    check_prologue(&r, be32(&d[0..4]));
    let want = b"10.0.0.1.8.0";
    assert!(be32(&r[20..24]) == 0, "C16: GETADDR accept state");
    assert!(be32(&r[24..28]) as usize == want.len(), "C16: universal address length");
    assert!(r.len() == 28 + want.len(), "C16: universal address is not XDR padded to a multiple of 4 (and no further)");
    let mut i = 0;
    while i < want.len() {
        assert!(r[28 + i] == want[i], "C16: GETADDR does not advertise the contacted address and port");
        i += 1;
    }
    kani::cover!(true, "GETADDR answered");
}

/// parser: a 44-byte TCP call with symbolic fields reaches End with exactly those fields
/// (big-endian), the record mark decoded; cut at `cut` gives the same state (C11)
fn rpc_tcp_parse(cut: usize) {
    let mut d: [u8; 44] = kani::any();
    d[32] = 0; d[33] = 0; d[34] = 0; d[35] = 0;
    d[40] = 0; d[41] = 0; d[42] = 0; d[43] = 0;
    let mut a = ProtocolState::new();
    rpc_parse(&mut a, &d);
    assert!(matches!(a.state, RpcState::End), "C16: complete call not parsed to End");
    assert!(a.xid == be32(&d[4..8]) && a.message_type == be32(&d[8..12]) && a.rpc_version == be32(&d[12..16]), "C16: xid / message type / rpc version misparsed");
    assert!(a.program == be32(&d[16..20]) && a.prog_version == be32(&d[20..24]) && a.procedure == be32(&d[24..28]), "C16: program / version / procedure misparsed");
    assert!(a.last_frag == (d[0] & 0x80 != 0), "C16: last-fragment bit misparsed");
    let mut b = ProtocolState::new();
    rpc_parse(&mut b, &d[..cut]);
    assert!(!matches!(b.state, RpcState::End), "C11: incomplete call already complete");
    rpc_parse(&mut b, &d[cut..]);
    assert!(matches!(b.state, RpcState::End), "C11: split call not parsed to End");
    assert!(a.xid == b.xid && a.program == b.program && a.prog_version == b.prog_version && a.procedure == b.procedure
        && a.message_type == b.message_type && a.rpc_version == b.rpc_version && a.last_frag == b.last_frag && a.frag_len == b.frag_len
        && a.creds_flavor == b.creds_flavor && a.verif_flavor == b.verif_flavor && a.cur_len == b.cur_len && a.data_len == b.data_len,
        "C11: parsed call depends on segmentation");
    kani::cover!(true, "call parsed");
    std::mem::forget(a);
    std::mem::forget(b);
}

/// TCP framing: `repl_tcp` on a flow whose control block already holds a complete call
/// (End state with symbolic fields) frames the reply with a last-fragment record mark
fn rpc_tcp_frame(case: u8) {
    log::set_max_level(log::LevelFilter::Off);
    let mut st = ProtocolState::new();
    st.state = RpcState::End;
    st.xid = kani::any();
    st.program = kani::any();
    match case {
        0 => { st.prog_version = 7; st.procedure = kani::any(); }
        1 => { st.prog_version = 3; st.procedure = 0; }
        _ => { st.prog_version = 2; st.procedure = 3; st.program = 100000; }
    }
    let xid = st.xid;
    let mut tcb = TCPControlBlock { smack_state: 0, proto_id: 5, proto_state: Some(GenericProtocolState::RPC(st)) };
    let ci = rpc_ci(false);
    let masscanned = ms_plain([0, 0], MacAddr::new(0, 1, 2, 3, 4, 5));
    let r = match repl_tcp(&[], &masscanned, &ci, Some(&mut tcb)) {
        Some(r) => r,
        None => {
            assert!(false, "C16: complete call over TCP not answered");
            return;
        }
    };
    assert!(r.len() >= 28, "C16: framed reply too short");
    let mark = be32(&r[0..4]);
    assert!(mark & 0x8000_0000 != 0, "C16: last-fragment bit not set in the record mark");
    assert!((mark & 0x7fff_ffff) as usize == r.len() - 4, "C16: record mark length differs from the reply length");
    check_prologue(&r[4..], xid);
    kani::cover!(true, "framed reply");
    std::mem::forget(tcb);
}







//# harness: c16_rpc_tcp_parse_cut4
//# props: C16 C11 C01
//# tier: quick
//# encodes: proto::rpc::rpc_parse, read_u32
//# bounds: 44-byte ONC-RPC call over TCP (record mark + 40 bytes), all fields symbolic, AUTH bodies of length 0; parsed whole and cut after byte 4
//# cover: call parsed
#[kani::proof]
#[kani::unwind(48)]
fn c16_rpc_tcp_parse_cut4() {
    rpc_tcp_parse(4)
}

//# harness: c16_rpc_tcp_parse_cut27
//# props: C16 C11 C01
//# tier: quick
//# encodes: proto::rpc::rpc_parse, read_u32
//# bounds: 44-byte ONC-RPC call over TCP (record mark + 40 bytes), all fields symbolic, AUTH bodies of length 0; parsed whole and cut after byte 27
//# cover: call parsed
#[kani::proof]
#[kani::unwind(48)]
fn c16_rpc_tcp_parse_cut27() {
    rpc_tcp_parse(27)
}

//# harness: c16_rpc_tcp_parse_cut1
//# props: C16 C11 C01
//# tier: thorough
//# encodes: proto::rpc::rpc_parse, read_u32
//# bounds: 44-byte ONC-RPC call over TCP (record mark + 40 bytes), all fields symbolic, AUTH bodies of length 0; parsed whole and cut after byte 1
//# cover: call parsed
#[kani::proof]
#[kani::unwind(48)]
fn c16_rpc_tcp_parse_cut1() {
    rpc_tcp_parse(1)
}

//# harness: c16_rpc_tcp_parse_cut28
//# props: C16 C11 C01
//# tier: thorough
//# encodes: proto::rpc::rpc_parse, read_u32
//# bounds: 44-byte ONC-RPC call over TCP (record mark + 40 bytes), all fields symbolic, AUTH bodies of length 0; parsed whole and cut after byte 28
//# cover: call parsed
#[kani::proof]
#[kani::unwind(48)]
fn c16_rpc_tcp_parse_cut28() {
    rpc_tcp_parse(28)
}

//# harness: c16_rpc_tcp_parse_cut43
//# props: C16 C11 C01
//# tier: thorough
//# encodes: proto::rpc::rpc_parse, read_u32
//# bounds: 44-byte ONC-RPC call over TCP (record mark + 40 bytes), all fields symbolic, AUTH bodies of length 0; parsed whole and cut after byte 43
//# cover: call parsed
#[kani::proof]
#[kani::unwind(48)]
fn c16_rpc_tcp_parse_cut43() {
    rpc_tcp_parse(43)
}


//# harness: c16_rpc_tcp_frame_case1
//# props: C16
//# tier: quick
//# encodes: proto::rpc::repl_tcp (record marking), build_repl
//# bounds: control block holding a complete call (End state) with symbolic xid / program / version / procedure in region 1 (procedure 0); empty segment
//# cover: framed reply
#[kani::proof]
#[kani::unwind(48)]
fn c16_rpc_tcp_frame_case1() {
    rpc_tcp_frame(1)
}


/// benign dispatch classes of the matcher (lib/c10_z3.py): a datagram that stops one byte
/// short of the RPC signature is handed to the RPC responder, which must stay silent
fn rpc_short_silent(udp: bool, n: usize) {
    let d: [u8; 44] = kani::any();
    let ci = rpc_ci(false);
    let masscanned = ms_plain([0, 0], MacAddr::new(0, 1, 2, 3, 4, 5));
    let r = if udp { repl_udp(&d[..n], &masscanned, &ci, None) } else { repl_tcp(&d[..n], &masscanned, &ci, None) };
    assert!(r.is_none(), "C10: datagram too short to hold an ONC-RPC call answered by the RPC responder");
    kani::cover!(true, "short datagram ignored");
}

//# harness: c10_rpc_short_silent_udp23
//# props: C10 C16@thorough
//# tier: quick
//# encodes: proto::rpc::repl_udp, rpc_parse
//# bounds: 23 arbitrary bytes (the length at which the matcher dispatches RPC/UDP at end of input although the 24-byte signature is incomplete)
//# cover: short datagram ignored
#[kani::proof]
#[kani::unwind(48)]
fn c10_rpc_short_silent_udp23() {
    rpc_short_silent(true, 23)
}

//# harness: c10_rpc_short_silent_tcp27
//# props: C10 C16@thorough
//# tier: quick
//# encodes: proto::rpc::repl_tcp, rpc_parse
//# bounds: 27 arbitrary bytes, no control block (datagram mode)
//# cover: short datagram ignored
#[kani::proof]
#[kani::unwind(48)]
fn c10_rpc_short_silent_tcp27() {
    rpc_short_silent(false, 27)
}

//# harness: c10_rpc_short_silent_udp39
//# props: C10 C16
//# tier: extended
//# encodes: proto::rpc::repl_udp, rpc_parse
//# bounds: 39 arbitrary bytes (one byte short of the smallest complete call)
//# cover: short datagram ignored
#[kani::proof]
#[kani::unwind(48)]
fn c10_rpc_short_silent_udp39() {
    rpc_short_silent(true, 39)
}

/// XDR string encoding used for the universal address / netid / owner strings: 4-byte
/// big-endian length, the bytes, zero padding up to the next multiple of 4 (and none when
/// the length already is one)
fn xdr_string(len: usize) {
    let content: [u8; 8] = kani::any();
    let s = unsafe { String::from_utf8_unchecked(content[..len].to_vec()) };
    let mut buf: Vec<u8> = Vec::with_capacity(32);
    buf.push(0xAA);
    push_string_pad(&mut buf, s);
    let padded = (len + 3) / 4 * 4;
    assert!(buf.len() == 1 + 4 + padded, "C16: XDR string is not length word + bytes padded to a multiple of 4");
    assert!(be32(&buf[1..5]) as usize == len, "C16: XDR string length word");
    let j: usize = kani::any();
    if j < padded {
        if j < len {
            assert!(buf[5 + j] == content[j], "C16: XDR string bytes altered");
        } else {
            assert!(buf[5 + j] == 0, "C16: XDR padding is not zero");
        }
    }
    kani::cover!(true, "string encoded");
}

//# harness: c16_rpc_xdr_string_4
//# props: C16
//# tier: quick
//# encodes: proto::rpc::push_string_pad, push_u32
//# bounds: string of exactly 4 printable bytes (content symbolic), appended to a non-empty buffer
//# out: strings longer than 8 bytes (the padding rule depends on the length modulo 4 only; residues 0,1,3 and lengths 0,4,8 are covered across the instances)
//# cover: string encoded
#[kani::proof]
#[kani::unwind(12)]
fn c16_rpc_xdr_string_4() {
    xdr_string(4)
}

//# harness: c16_rpc_xdr_string_5
//# props: C16
//# tier: quick
//# encodes: proto::rpc::push_string_pad, push_u32
//# bounds: string of exactly 5 printable bytes (content symbolic), appended to a non-empty buffer
//# out: strings longer than 8 bytes (the padding rule depends on the length modulo 4 only; residues 0,1,3 and lengths 0,4,8 are covered across the instances)
//# cover: string encoded
#[kani::proof]
#[kani::unwind(12)]
fn c16_rpc_xdr_string_5() {
    xdr_string(5)
}

//# harness: c16_rpc_xdr_string_0
//# props: C16
//# tier: thorough
//# encodes: proto::rpc::push_string_pad, push_u32
//# bounds: string of exactly 0 printable bytes (content symbolic), appended to a non-empty buffer
//# out: strings longer than 8 bytes (the padding rule depends on the length modulo 4 only; residues 0,1,3 and lengths 0,4,8 are covered across the instances)
//# cover: string encoded
#[kani::proof]
#[kani::unwind(12)]
fn c16_rpc_xdr_string_0() {
    xdr_string(0)
}

//# harness: c16_rpc_xdr_string_3
//# props: C16
//# tier: thorough
//# encodes: proto::rpc::push_string_pad, push_u32
//# bounds: string of exactly 3 printable bytes (content symbolic), appended to a non-empty buffer
//# out: strings longer than 8 bytes (the padding rule depends on the length modulo 4 only; residues 0,1,3 and lengths 0,4,8 are covered across the instances)
//# cover: string encoded
#[kani::proof]
#[kani::unwind(12)]
fn c16_rpc_xdr_string_3() {
    xdr_string(3)
}

//# harness: c16_rpc_xdr_string_8
//# props: C16
//# tier: thorough
//# encodes: proto::rpc::push_string_pad, push_u32
//# bounds: string of exactly 8 printable bytes (content symbolic), appended to a non-empty buffer
//# out: strings longer than 8 bytes (the padding rule depends on the length modulo 4 only; residues 0,1,3 and lengths 0,4,8 are covered across the instances)
//# cover: string encoded
#[kani::proof]
#[kani::unwind(12)]
fn c16_rpc_xdr_string_8() {
    xdr_string(8)
}

//# harness: c16_rpc_xdr_string_7
//# props: C16
//# tier: thorough
//# encodes: proto::rpc::push_string_pad, push_u32
//# bounds: string of exactly 7 printable bytes (content symbolic), appended to a non-empty buffer
//# out: strings longer than 8 bytes (the padding rule depends on the length modulo 4 only; residues 0,1,3 and lengths 0,4,8 are covered across the instances)
//# cover: string encoded
#[kani::proof]
#[kani::unwind(12)]
fn c16_rpc_xdr_string_7() {
    xdr_string(7)
}

//# harness: c16_rpc_udp_grid_mismatch
//# props: C16 C01 C19@thorough
//# tier: quick
//# encodes: proto::rpc::repl_udp, proto::rpc::rpc_parse, proto::rpc::build_repl, build_repl_portmap, build_repl_unknownprog, push_u32
//# bounds: 40-byte ONC-RPC call over UDP; grid points (version, procedure) in {(0,0),(1,3),(5,4),(104316,0),(0xFFFFFFFF,7)}; XID, message type, rpc version, program, AUTH flavors, contacted address and port fully symbolic at every point
//# out: credential / verifier bodies longer than 0 bytes; (version, procedure) pairs outside the listed grid - the pair is concrete per grid point because it selects the code path; DUMP replies and universal addresses of symbolic endpoints (std Display formatting)
//# cover: portmapper program
//# cover: foreign program
#[kani::proof]
#[kani::unwind(48)]
fn c16_rpc_udp_grid_mismatch() {
    rpc_udp_grid(0, false)
}

//# harness: c16_rpc_udp_grid_procs
//# props: C16 C01 C19@thorough
//# tier: quick
//# encodes: proto::rpc::repl_udp, proto::rpc::rpc_parse, proto::rpc::build_repl, build_repl_portmap, build_repl_unknownprog, push_u32
//# bounds: 40-byte ONC-RPC call over UDP; grid points (version, procedure) in {(2,0),(4,0),(2,1),(3,5),(4,255),(3,0x01000003)}; XID, program (so both portmapper and foreign programs), flavors, endpoint symbolic
//# out: credential / verifier bodies longer than 0 bytes; (version, procedure) pairs outside the listed grid - the pair is concrete per grid point because it selects the code path; DUMP replies and universal addresses of symbolic endpoints (std Display formatting)
//# cover: portmapper program
//# cover: foreign program
#[kani::proof]
#[kani::unwind(48)]
fn c16_rpc_udp_grid_procs() {
    rpc_udp_grid(1, false)
}

//# harness: c16_rpc_udp_grid_getport
//# props: C16 C01 C19@thorough
//# tier: quick
//# encodes: proto::rpc::repl_udp, proto::rpc::rpc_parse, proto::rpc::build_repl, build_repl_portmap, build_repl_unknownprog, push_u32
//# bounds: 40-byte ONC-RPC call over UDP; GETPORT (version 2, procedure 3); XID, program, flavors, contacted address and port symbolic
//# out: credential / verifier bodies longer than 0 bytes; (version, procedure) pairs outside the listed grid - the pair is concrete per grid point because it selects the code path; DUMP replies and universal addresses of symbolic endpoints (std Display formatting)
//# cover: portmapper program
#[kani::proof]
#[kani::unwind(48)]
fn c16_rpc_udp_grid_getport() {
    rpc_udp_grid(2, false)
}

//# harness: c16_rpc_udp_grid_getport_v6
//# props: C16 C01 C19@thorough
//# tier: thorough
//# encodes: proto::rpc::repl_udp, proto::rpc::rpc_parse, proto::rpc::build_repl, build_repl_portmap, build_repl_unknownprog, push_u32
//# bounds: 40-byte ONC-RPC call over UDP; GETPORT (version 2, procedure 3); XID, program, flavors, contacted address and port symbolic (IPv6 endpoint)
//# out: credential / verifier bodies longer than 0 bytes; (version, procedure) pairs outside the listed grid - the pair is concrete per grid point because it selects the code path; DUMP replies and universal addresses of symbolic endpoints (std Display formatting)
//# cover: portmapper program
#[kani::proof]
#[kani::unwind(48)]
fn c16_rpc_udp_grid_getport_v6() {
    rpc_udp_grid(2, true)
}

//# harness: c16_rpc_udp_grid_procs_v6
//# props: C16 C01 C19@thorough
//# tier: thorough
//# encodes: proto::rpc::repl_udp, proto::rpc::rpc_parse, proto::rpc::build_repl, build_repl_portmap, build_repl_unknownprog, push_u32
//# bounds: 40-byte ONC-RPC call over UDP; grid points (version, procedure) in {(2,0),(4,0),(2,1),(3,5),(4,255),(3,0x01000003)}; XID, program (so both portmapper and foreign programs), flavors, endpoint symbolic (IPv6 endpoint)
//# out: credential / verifier bodies longer than 0 bytes; (version, procedure) pairs outside the listed grid - the pair is concrete per grid point because it selects the code path; DUMP replies and universal addresses of symbolic endpoints (std Display formatting)
//# cover: foreign program
#[kani::proof]
#[kani::unwind(48)]
fn c16_rpc_udp_grid_procs_v6() {
    rpc_udp_grid(1, true)
}


// ---- GETADDR / DUMP bodies (XDR structure; the formatted text is an arbitrary string) ----
fn pad4(n: usize) -> usize { (n + 3) / 4 * 4 }

/// XDR string at r[off..]: length word, bytes, zero padding; -> offset after it
fn xdr_str_at(r: &[u8], off: usize, want: &[u8]) -> usize {
    assert!(r.len() >= off + 4 + pad4(want.len()), "C16: reply ends inside an XDR string");
    assert!(be32(&r[off..off + 4]) as usize == want.len(), "C16: XDR string length word differs from the string");
    let mut i = 0;
    while i < want.len() {
        assert!(r[off + 4 + i] == want[i], "C16: XDR string bytes differ from the advertised text");
        i += 1;
    }
    while i < pad4(want.len()) {
        assert!(r[off + 4 + i] == 0, "C16: XDR string padding is not zero");
        i += 1;
    }
    off + 4 + pad4(want.len())
}

fn rpc_call(vers: u32, proc_: u32) -> [u8; 40] {
    let mut d: [u8; 40] = kani::any();
    d[12] = 0; d[13] = 1; d[14] = 0x86; d[15] = 0xa0; // program 100000
    d[16] = 0; d[17] = 0; d[18] = 0; d[19] = vers as u8;
    d[20] = 0; d[21] = 0; d[22] = 0; d[23] = proc_ as u8;
    d[28] = 0; d[29] = 0; d[30] = 0; d[31] = 0;
    d[36] = 0; d[37] = 0; d[38] = 0; d[39] = 0;
    d
}

fn arm_fmt(len: usize) -> [u8; 16] {
    let t: [u8; 16] = kani::any();
    let mut i = 0;
    while i < 16 {
        kani::assume(t[i] >= 0x20 && t[i] < 0x7f);
        i += 1;
    }
    unsafe {
        FMT_LEN = len;
        FMT_CALLS = 0;
        FMT_BYTES = t;
    }
    t
}

/// GETADDR (procedure 3, version 3 or 4): accepted, one XDR string = the formatted text
fn rpc_getaddr(vers: u32, len: usize, v6: bool) {
    log::set_max_level(log::LevelFilter::Off);
    let d = rpc_call(vers, 3);
    let t = arm_fmt(len);
    let ci = rpc_ci(v6);
    let masscanned = ms_plain([0, 0], MacAddr::new(0, 1, 2, 3, 4, 5));
    let r = match repl_udp(&d, &masscanned, &ci, None) {
        Some(r) => r,
        None => {
            assert!(false, "C16: GETADDR not answered");
            return;
        }
    };
    check_prologue(&r, be32(&d[0..4]));
    assert!(be32(&r[20..24]) == 0, "C16: GETADDR accept state");
    let end = xdr_str_at(&r, 24, &t[..len]);
    assert!(end == r.len(), "C16: bytes after the universal address");
    assert!(unsafe { FMT_CALLS } == 1, "C16: GETADDR formats one universal address");
    kani::cover!(true, "GETADDR answered");
}

/// DUMP (procedure 4): three entries (versions 2, 3, 4 of program 100000) and the end marker
fn rpc_dump(vers: u32, len: usize, v6: bool) {
    log::set_max_level(log::LevelFilter::Off);
    let d = rpc_call(vers, 4);
    let t = arm_fmt(len);
    let ci = rpc_ci(v6);
    let port = ci.port.dst.unwrap() as u32;
    let masscanned = ms_plain([0, 0], MacAddr::new(0, 1, 2, 3, 4, 5));
    let r = match repl_udp(&d, &masscanned, &ci, None) {
        Some(r) => r,
        None => {
            assert!(false, "C16: DUMP not answered");
            return;
        }
    };
    check_prologue(&r, be32(&d[0..4]));
    assert!(be32(&r[20..24]) == 0, "C16: DUMP accept state");
    let mut off = 24;
    let mut v = 2;
    while v <= 4 {
        assert!(r.len() >= off + 12, "C16: DUMP list truncated");
        assert!(be32(&r[off..off + 4]) == 1, "C16: DUMP entry without value-follows marker");
        assert!(be32(&r[off + 4..off + 8]) == 100000 && be32(&r[off + 8..off + 12]) == v, "C16: DUMP entry program / version");
        off += 12;
        if vers == 2 {
            assert!(r.len() >= off + 8, "C16: DUMP v2 entry truncated");
            assert!(be32(&r[off..off + 4]) == 6, "C16: DUMP v2 protocol is not TCP(6)");
            assert!(be32(&r[off + 4..off + 8]) == port, "C16: DUMP v2 does not advertise the contacted port");
            off += 8;
        } else {
            off = xdr_str_at(&r, off, if v6 { b"tcp6" } else { b"tcp" });
            off = xdr_str_at(&r, off, &t[..len]);
            off = xdr_str_at(&r, off, b"superuser");
        }
        v += 1;
    }
    assert!(r.len() == off + 4 && be32(&r[off..off + 4]) == 0, "C16: DUMP list not terminated by a no-value-follows marker");
    kani::cover!(true, "DUMP answered");
}

//# harness: c16_rpc_getaddr_v3_11
//# props: C16 C19
//# tier: quick
//# encodes: proto::rpc::repl_udp, rpc_parse, build_repl, build_repl_portmap, push_string_pad, push_u32
//# bounds: 40-byte ONC-RPC GETADDR call over UDP, version 3; XID, flavors, endpoint (IPv4) symbolic; universal address of 11 arbitrary printable bytes
//# stubs: alloc::fmt::format -> arbitrary printable text of the stated length (same text at every call)
//# out: the rendering of address and port into the universal-address text (std formatting of IpAddr / integers)
//# cover: GETADDR answered
#[kani::proof]
#[kani::unwind(42)]
#[kani::stub(alloc::fmt::format, crate::verif_util::fmt_any_stub)]
fn c16_rpc_getaddr_v3_11() {
    rpc_getaddr(3, 11, false)
}

//# harness: c16_rpc_getaddr_v4_12
//# props: C16 C19
//# tier: thorough
//# encodes: proto::rpc::repl_udp, rpc_parse, build_repl, build_repl_portmap, push_string_pad, push_u32
//# bounds: 40-byte ONC-RPC GETADDR call over UDP, version 4; XID, flavors, endpoint (IPv6) symbolic; universal address of 12 arbitrary printable bytes
//# stubs: alloc::fmt::format -> arbitrary printable text of the stated length (same text at every call)
//# out: the rendering of address and port into the universal-address text (std formatting of IpAddr / integers)
//# cover: GETADDR answered
#[kani::proof]
#[kani::unwind(42)]
#[kani::stub(alloc::fmt::format, crate::verif_util::fmt_any_stub)]
fn c16_rpc_getaddr_v4_12() {
    rpc_getaddr(4, 12, true)
}

//# harness: c16_rpc_dump_v2
//# props: C16 C19
//# tier: quick
//# encodes: proto::rpc::repl_udp, rpc_parse, build_repl, build_repl_portmap, push_string_pad, push_u32
//# bounds: 40-byte ONC-RPC DUMP call over UDP, version 2; XID, flavors, endpoint (IPv4) symbolic
//# stubs: alloc::fmt::format -> arbitrary printable text of the stated length (same text at every call)
//# out: the rendering of address and port into the universal-address text (std formatting of IpAddr / integers)
//# cover: DUMP answered
#[kani::proof]
#[kani::unwind(42)]
#[kani::stub(alloc::fmt::format, crate::verif_util::fmt_any_stub)]
fn c16_rpc_dump_v2() {
    rpc_dump(2, 9, false)
}

//# harness: c16_rpc_dump_v2_v6
//# props: C16 C19
//# tier: quick
//# encodes: proto::rpc::repl_udp, rpc_parse, build_repl, build_repl_portmap, push_string_pad, push_u32
//# bounds: 40-byte ONC-RPC DUMP call over UDP, version 2; XID, flavors, endpoint (IPv6) symbolic
//# stubs: alloc::fmt::format -> arbitrary printable text of the stated length (same text at every call)
//# out: the rendering of address and port into the universal-address text (std formatting of IpAddr / integers)
//# cover: DUMP answered
#[kani::proof]
#[kani::unwind(42)]
#[kani::stub(alloc::fmt::format, crate::verif_util::fmt_any_stub)]
fn c16_rpc_dump_v2_v6() {
    rpc_dump(2, 9, true)
}

//# harness: c16_rpc_dump_v3_9
//# props: C16 C19
//# tier: quick
//# encodes: proto::rpc::repl_udp, rpc_parse, build_repl, build_repl_portmap, push_string_pad, push_u32
//# bounds: 40-byte ONC-RPC DUMP call over UDP, version 3; XID, flavors, endpoint (IPv4) symbolic; address text of 9 arbitrary printable bytes
//# stubs: alloc::fmt::format -> arbitrary printable text of the stated length (same text at every call)
//# out: the rendering of address and port into the universal-address text (std formatting of IpAddr / integers)
//# cover: DUMP answered
#[kani::proof]
#[kani::unwind(42)]
#[kani::stub(alloc::fmt::format, crate::verif_util::fmt_any_stub)]
fn c16_rpc_dump_v3_9() {
    rpc_dump(3, 9, false)
}

//# harness: c16_rpc_dump_v4_8_v6
//# props: C16 C19
//# tier: thorough
//# encodes: proto::rpc::repl_udp, rpc_parse, build_repl, build_repl_portmap, push_string_pad, push_u32
//# bounds: 40-byte ONC-RPC DUMP call over UDP, version 4; XID, flavors, endpoint (IPv6) symbolic; address text of 8 arbitrary printable bytes
//# stubs: alloc::fmt::format -> arbitrary printable text of the stated length (same text at every call)
//# out: the rendering of address and port into the universal-address text (std formatting of IpAddr / integers)
//# cover: DUMP answered
#[kani::proof]
#[kani::unwind(42)]
#[kani::stub(alloc::fmt::format, crate::verif_util::fmt_any_stub)]
fn c16_rpc_dump_v4_8_v6() {
    rpc_dump(4, 8, true)
}


// ---- calls with non-empty credentials / verifier (the C16 quantifier: "credential/verifier lengths") ----
/// 44 + cl + vl byte call over TCP, all fields symbolic, credentials body of cl bytes and
/// verifier body of vl bytes; parsed whole, as every proper prefix ending at n-1 (must not be
/// complete yet) and cut in two at `cut`
fn rpc_tcp_parse_auth(cl: usize, vl: usize, cut: usize) {
    let mut d: [u8; 64] = kani::any();
    let n = 44 + cl + vl;
    d[32] = 0; d[33] = 0; d[34] = 0; d[35] = cl as u8;
    d[40 + cl] = 0; d[41 + cl] = 0; d[42 + cl] = 0; d[43 + cl] = vl as u8;
    let mut a = ProtocolState::new();
    rpc_parse(&mut a, &d[..n]);
    assert!(matches!(a.state, RpcState::End), "C16: complete call with AUTH bodies not parsed to End");
    assert!(a.xid == be32(&d[4..8]) && a.program == be32(&d[16..20]) && a.prog_version == be32(&d[20..24]) && a.procedure == be32(&d[24..28]), "C16: xid / program / version / procedure misparsed");
    assert!(a.creds_flavor == be32(&d[28..32]) && a.verif_flavor == be32(&d[36 + cl..40 + cl]), "C16: AUTH flavors misparsed");
    let mut c = ProtocolState::new();
    rpc_parse(&mut c, &d[..n - 1]);
    assert!(!matches!(c.state, RpcState::End), "C11: call complete before its last byte (over TCP a reply is sent before the request is complete, and again when the rest arrives)");
    let mut b = ProtocolState::new();
    rpc_parse(&mut b, &d[..cut]);
    assert!(!matches!(b.state, RpcState::End), "C11: incomplete call already complete");
    rpc_parse(&mut b, &d[cut..n]);
    assert!(matches!(b.state, RpcState::End), "C11: split call not parsed to End");
    assert!(a.xid == b.xid && a.program == b.program && a.prog_version == b.prog_version && a.procedure == b.procedure
        && a.message_type == b.message_type && a.rpc_version == b.rpc_version && a.last_frag == b.last_frag && a.frag_len == b.frag_len
        && a.creds_flavor == b.creds_flavor && a.verif_flavor == b.verif_flavor && a.cur_len == b.cur_len && a.data_len == b.data_len
        && a.creds_data.len() == b.creds_data.len() && a.verif_data.len() == b.verif_data.len() && a.payload.len() == b.payload.len(),
        "C11: parsed call depends on segmentation");
    kani::cover!(true, "call parsed");
    std::mem::forget(a);
    std::mem::forget(b);
    std::mem::forget(c);
}

//# harness: c16_rpc_tcp_parse_creds8_cut38
//# props: C16 C11 C01
//# tier: quick
//# encodes: proto::rpc::rpc_parse, read_u32, read_string
//# bounds: 52-byte ONC-RPC call over TCP, all fields symbolic, credentials body of 8 bytes, verifier body of 0 bytes; parsed whole, without its last byte, and cut after byte 38 (inside the credentials body)
//# out: bodies longer than 8 bytes; XDR padding of bodies whose length is not a multiple of 4
//# cover: call parsed
#[kani::proof]
#[kani::unwind(66)]
fn c16_rpc_tcp_parse_creds8_cut38() {
    rpc_tcp_parse_auth(8, 0, 38)
}

//# harness: c16_rpc_tcp_parse_verif4_cut46
//# props: C16 C11 C01
//# tier: quick
//# encodes: proto::rpc::rpc_parse, read_u32, read_string
//# bounds: 48-byte ONC-RPC call over TCP, all fields symbolic, credentials body of 0 bytes, verifier body of 4 bytes; parsed whole, without its last byte, and cut after byte 46 (inside the verifier body)
//# out: bodies longer than 8 bytes; XDR padding of bodies whose length is not a multiple of 4
//# cover: call parsed
#[kani::proof]
#[kani::unwind(66)]
fn c16_rpc_tcp_parse_verif4_cut46() {
    rpc_tcp_parse_auth(0, 4, 46)
}

//# harness: c16_rpc_tcp_parse_creds8_verif4_cut41
//# props: C16 C11 C01
//# tier: thorough
//# encodes: proto::rpc::rpc_parse, read_u32, read_string
//# bounds: 56-byte ONC-RPC call over TCP, all fields symbolic, credentials body of 8 bytes, verifier body of 4 bytes; parsed whole, without its last byte, and cut after byte 41 (inside the credentials body)
//# out: bodies longer than 8 bytes; XDR padding of bodies whose length is not a multiple of 4
//# cover: call parsed
#[kani::proof]
#[kani::unwind(66)]
fn c16_rpc_tcp_parse_creds8_verif4_cut41() {
    rpc_tcp_parse_auth(8, 4, 41)
}

//# harness: c16_rpc_tcp_parse_creds4_verif8_cut53
//# props: C16 C11 C01
//# tier: thorough
//# encodes: proto::rpc::rpc_parse, read_u32, read_string
//# bounds: 56-byte ONC-RPC call over TCP, all fields symbolic, credentials body of 4 bytes, verifier body of 8 bytes; parsed whole, without its last byte, and cut after byte 53 (inside the verifier body)
//# out: bodies longer than 8 bytes; XDR padding of bodies whose length is not a multiple of 4
//# cover: call parsed
#[kani::proof]
#[kani::unwind(66)]
fn c16_rpc_tcp_parse_creds4_verif8_cut53() {
    rpc_tcp_parse_auth(4, 8, 53)
}
