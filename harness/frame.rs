//@ target: src/masscanned.rs
//@ mod: verif_frame
// The real top-level `reply(frame, masscanned)`: any byte string handed over by the capture
// loop, including ones shorter than an Ethernet header (C01).
use crate::verif_util::*;
use pnet::packet::ethernet::{EthernetPacket, MutableEthernetPacket};
use pnet::packet::Packet;
use pnet::util::MacAddr;

pub fn l2_reply_stub<'a, 'b>(
    _eth_req: &'a EthernetPacket,
    _m: &Masscanned,
    _ci: &mut client::ClientInfo,
) -> Option<MutableEthernetPacket<'b>> {
    if kani::any() {
        let b: [u8; 14] = kani::any();
        MutableEthernetPacket::owned(b.to_vec())
    } else {
        None
    }
}

fn frame_case(n: usize) {
    let buf: [u8; 16] = kani::any();
    let masscanned = ms_plain([kani::any(), kani::any()], any_mac());
    let r = reply(&buf[..n], &masscanned);
    kani::cover!(r.is_none(), "silence");
    if n >= 14 {
        kani::cover!(r.is_some(), "reply");
    } else {
        assert!(r.is_none(), "C01: a frame shorter than an Ethernet header was answered");
    }
}

//# harness: c01_frame_0
//# props: C01
//# tier: quick
//# encodes: masscanned::reply (top-level entry called by the receive loop)
//# bounds: frame of exactly 0 bytes, all bytes symbolic
//# stubs: layer_2::reply -> arbitrary Option<14-byte frame> (decided by c02_eth_* / c01_eth_*)
//# cover: silence
#[kani::proof]
#[kani::unwind(20)]
#[kani::stub(crate::layer_2::reply, l2_reply_stub)]
fn c01_frame_0() {
    frame_case(0)
}

//# harness: c01_frame_13
//# props: C01
//# tier: quick
//# encodes: masscanned::reply (top-level entry called by the receive loop)
//# bounds: frame of exactly 13 bytes, all bytes symbolic
//# stubs: layer_2::reply -> arbitrary Option<14-byte frame> (decided by c02_eth_* / c01_eth_*)
//# cover: silence
#[kani::proof]
#[kani::unwind(20)]
#[kani::stub(crate::layer_2::reply, l2_reply_stub)]
fn c01_frame_13() {
    frame_case(13)
}

//# harness: c01_frame_14
//# props: C01
//# tier: quick
//# encodes: masscanned::reply (top-level entry called by the receive loop)
//# bounds: frame of exactly 14 bytes, all bytes symbolic
//# stubs: layer_2::reply -> arbitrary Option<14-byte frame> (decided by c02_eth_* / c01_eth_*)
//# cover: silence
#[kani::proof]
#[kani::unwind(20)]
#[kani::stub(crate::layer_2::reply, l2_reply_stub)]
fn c01_frame_14() {
    frame_case(14)
}

//# harness: c01_frame_1
//# props: C01
//# tier: thorough
//# encodes: masscanned::reply (top-level entry called by the receive loop)
//# bounds: frame of exactly 1 bytes, all bytes symbolic
//# stubs: layer_2::reply -> arbitrary Option<14-byte frame> (decided by c02_eth_* / c01_eth_*)
//# cover: silence
#[kani::proof]
#[kani::unwind(20)]
#[kani::stub(crate::layer_2::reply, l2_reply_stub)]
fn c01_frame_1() {
    frame_case(1)
}

//# harness: c01_frame_16
//# props: C01
//# tier: thorough
//# encodes: masscanned::reply (top-level entry called by the receive loop)
//# bounds: frame of exactly 16 bytes, all bytes symbolic
//# stubs: layer_2::reply -> arbitrary Option<14-byte frame> (decided by c02_eth_* / c01_eth_*)
//# cover: silence
#[kani::proof]
#[kani::unwind(20)]
#[kani::stub(crate::layer_2::reply, l2_reply_stub)]
fn c01_frame_16() {
    frame_case(16)
}
