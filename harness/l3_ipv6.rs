//@ target: src/layer_3/ipv6.rs
//@ mod: verif_ipv6
// The real `layer_3::ipv6::repl` with the layer-4 entry points replaced by contract stubs:
// scope filters (C02), address mirroring incl. the neighbour-discovery target (C03), header
// well-formedness and transport checksums over the receiver's pseudo-header (C04).
use crate::client::ClientInfo;
use crate::verif_util::*;
use crate::Masscanned;
use pnet::packet::ipv6::{Ipv6Packet, MutableIpv6Packet};
use pnet::packet::Packet;
use pnet::util::MacAddr;
use crate::kshim::collections::HashSet;
use std::net::{IpAddr, Ipv4Addr, Ipv6Addr};

fn ipv6_case(proto: Option<u8>, m: usize, n: usize, lists: bool) {
    ipv6_case_ex(proto, m, n, lists, true)
}
/// csum = false: address mirroring / header fields only, the checksum miter is left to the c04_* instances
fn ipv6_case_ex(proto: Option<u8>, m: usize, n: usize, lists: bool, csum: bool) {
    let mut buf: [u8; 64] = kani::any();
    match proto {
        Some(p) => buf[6] = p,
        None => kani::assume(buf[6] != 58 && buf[6] != 6 && buf[6] != 17),
    }
    // addresses: octets 0, 14 and 15 of source and destination symbolic, the other 13 octets
    // zero (keeps the checksum miter within reach: measured 500 s timeouts with 32 symbolic
    // address octets); enough to tell source, destination and solicited target apart
    let mut z = 8;
    while z < 40 {
        let o = (z - 8) % 16;
        if o != 0 && o != 14 && o != 15 {
            buf[z] = 0;
        }
        z += 1;
    }
    let ip_req = Ipv6Packet::new(&buf[..40 + m]).unwrap();
    let a4 = any_ip4();
    let a6 = any_ip6();
    let d6 = any_ip6();
    // single-family lists (a list holding both an IPv4 and an IPv6 address makes the container
    // model explode - measured on the authorised-MAC lemma: 300 s+ against 4 s)
    let _ = a4;
    let mut s_set = HashSet::new();
    s_set.insert(IpAddr::V6(a6));
    let mut d_set = HashSet::new();
    d_set.insert(IpAddr::V6(d6));
    let s_on: bool = if lists { kani::any() } else { false };
    let d_on: bool = if lists { kani::any() } else { false };
    let mut masscanned = ms_plain([0, 0], any_mac());
    if s_on {
        masscanned.self_ip_list = Some(&s_set);
        l4_rec().cfg_s6 = Some(a6);
    }
    if d_on {
        masscanned.remote_ip_deny_list = Some(&d_set);
    }
    l4_rec().cfg_len = n;
    let mut ci = ClientInfo::new();
    let r = repl(&ip_req, &masscanned, &mut ci);
    let rec = l4_rec();
    let src = ip_req.get_source();
    let dst = ip_req.get_destination();
    let denied = d_on && src == d6;
    // neighbour solicitations are addressed to a solicited-node multicast group, so ICMPv6 is
    // let through the destination filter; whether the ANSWER is in scope is asserted below
    let out_of_scope = s_on && dst != a6 && proto != Some(58);
    if out_of_scope || denied || proto.is_none() {
        assert!(r.is_none(), "C02: IPv6 packet outside scope (foreign destination, denied source or unsupported next header) answered");
        assert!(rec.calls == 0, "C02: out-of-scope IPv6 packet reached layer 4");
        kani::cover!(out_of_scope, "dropped: destination not in self-IP list");
        kani::cover!(denied && !out_of_scope, "dropped: source on deny list");
        return;
    }
    assert!(ci.ip.src == Some(IpAddr::V6(src)) && ci.ip.dst == Some(IpAddr::V6(dst)), "C20: client_info addresses are not the packet's");
    let p = match r {
        Some(p) => p,
        None => {
            // silence is legitimate iff layer 4 was silent, the transport header did not parse, or
            // (C02) the address the answer would come from is outside the self-IP list - which for
            // ICMPv6 is only known once layer 4 has named the solicited target
            let would_src = match rec.nd_target {
                Some(t) if buf[6] == 58 => t,
                _ => dst,
            };
            let foreign = s_on && would_src != a6;
            assert!(rec.calls == 0 || !rec.some || foreign, "C03: layer-4 reply dropped by the IPv6 layer");
            kani::cover!(rec.calls == 1 && !rec.some, "layer 4 silent");
            kani::cover!(rec.calls == 0, "transport header too short");
            return;
        }
    };
    assert!(rec.calls == 1 && rec.some, "C03: IPv6 reply without a layer-4 reply");
    let b = p.packet();
    assert!(b[0] >> 4 == 6, "C04: IP version is not 6");
    assert!(b.len() == 40 + n, "C04: reply is not header + transport packet");
    assert!(((b[4] as usize) << 8 | b[5] as usize) == n, "C04: payload length is not the actual length");
    assert!(b[6] == buf[6], "C03: next header not preserved");
    assert!(b[7] >= 1, "C04: hop limit is zero");
    let is_na = buf[6] == 58 && rec.nd_target.is_some();
    if is_na {
        assert!(b[7] == 255, "C04: neighbour advertisement without hop limit 255");
    }
    let want_src = match (is_na, rec.nd_target) {
        (true, Some(t)) => t,
        _ => dst,
    };
    assert!(p.get_source() == want_src, "C03: reply source is not the address that was asked (request destination / solicited target)");
    assert!(p.get_destination() == src, "C03: reply destination is not the request's source");
    if s_on {
        if verif_known_c02_echo() && buf[6] == 58 && !is_na && dst != a6 {
            kani::cover!(true, "KF:c02.icmpv6_echo_foreign_destination");
        } else {
            assert!(p.get_source() == a6, "C02: reply source address outside the self-IP list");
        }
    }
    let l4 = &b[40..];
    let i: usize = kani::any();
    kani::assume(i < n);
    let ck = match buf[6] {
        58 => 2,
        6 => 16,
        _ => 6,
    };
    if i != ck && i != ck + 1 && !(buf[6] == 17 && (i == 4 || i == 5)) {
        assert!(l4[i] == rec.bytes[i], "C03: transport bytes altered by the IPv6 layer");
    }
    if lists || !csum {
        kani::cover!(true, "reply emitted");
        kani::cover!(is_na, "neighbour advertisement emitted");
        return;
    }
    assert!(csum_ok(pseudo6(&b[8..24], &b[24..40], buf[6], n), l4), "C04: transport checksum invalid over the IPv6 pseudo-header");
    if buf[6] == 17 {
        assert!(((l4[4] as usize) << 8 | l4[5] as usize) == n, "C04: UDP length is not the actual length");
        if crate::verif_known::C04_UDP6_ZERO_CHECKSUM {
            kani::cover!(l4[6] == 0 && l4[7] == 0, "KF:c04.udp6_zero_checksum");
        } else {
            assert!(!(l4[6] == 0 && l4[7] == 0), "C04: UDP checksum over IPv6 transmitted as zero");
        }
    }
    kani::cover!(true, "reply emitted");
    kani::cover!(is_na, "neighbour advertisement emitted");
}
fn verif_known_c02_echo() -> bool {
    crate::verif_known::C02_ICMPV6_ECHO_FOREIGN_DESTINATION
}

//# harness: c04_ipv6_tcp_20
//# props: C04 C03 C01
//# tier: thorough
//# timeout: 1400
//# encodes: layer_3::ipv6::repl
//# encodes: pnet_packet checksum helpers (icmpv6::checksum, tcp::ipv6_checksum, udp::ipv6_checksum)
//# bounds: 40-byte IPv6 request header symbolic (version, traffic class, flow label, payload length, hop limit free; source and destination address: octets 0, 14, 15 symbolic, others zero), next header = TCP, 20 transport bytes in the request; layer-4 reply of 20 arbitrary bytes or silence (ICMPv6: echo-style reply, or type 136 + solicited target); no self-IP list and no deny list (the scope filters are decided by c02_ipv6_scope_* and *_other_proto)
//# stubs: layer_4::{icmpv6,tcp,udp}::repl -> None or a transport packet of 20 arbitrary bytes (UDP: length field = 20; ICMPv6 NA: the returned target belongs to the self-IP list when one is configured - lemma c05_nd_*)
//# out: extension headers (not parsed by the implementation); other reply lengths
//# known: c02.icmpv6_echo_foreign_destination
//# known: c04.udp6_zero_checksum
//# cover: reply emitted
//# cover: layer 4 silent
#[kani::proof]
#[kani::unwind(44)]
#[kani::stub(crate::layer_4::icmpv6::repl, crate::verif_util::l4_icmpv6_stub)]
#[kani::stub(crate::layer_4::tcp::repl, crate::verif_util::l4_tcp_stub)]
#[kani::stub(crate::layer_4::udp::repl, crate::verif_util::l4_udp_stub)]
fn c04_ipv6_tcp_20() {
    ipv6_case(Some(6), 20, 20, false)
}

//# harness: c04_ipv6_tcp_23
//# props: C04 C03
//# tier: extended
//# encodes: layer_3::ipv6::repl
//# encodes: pnet_packet checksum helpers (icmpv6::checksum, tcp::ipv6_checksum, udp::ipv6_checksum)
//# bounds: 40-byte IPv6 request header symbolic (version, traffic class, flow label, payload length, hop limit free; source and destination address: octets 0, 14, 15 symbolic, others zero), next header = TCP, 21 transport bytes in the request; layer-4 reply of 23 arbitrary bytes or silence (ICMPv6: echo-style reply, or type 136 + solicited target); no self-IP list and no deny list (the scope filters are decided by c02_ipv6_scope_* and *_other_proto)
//# stubs: layer_4::{icmpv6,tcp,udp}::repl -> None or a transport packet of 23 arbitrary bytes (UDP: length field = 23; ICMPv6 NA: the returned target belongs to the self-IP list when one is configured - lemma c05_nd_*)
//# out: extension headers (not parsed by the implementation); other reply lengths
//# known: c02.icmpv6_echo_foreign_destination
//# known: c04.udp6_zero_checksum
//# cover: reply emitted
#[kani::proof]
#[kani::unwind(44)]
#[kani::stub(crate::layer_4::icmpv6::repl, crate::verif_util::l4_icmpv6_stub)]
#[kani::stub(crate::layer_4::tcp::repl, crate::verif_util::l4_tcp_stub)]
#[kani::stub(crate::layer_4::udp::repl, crate::verif_util::l4_udp_stub)]
fn c04_ipv6_tcp_23() {
    ipv6_case(Some(6), 21, 23, false)
}

//# harness: c04_ipv6_udp_9
//# props: C04 C03 C01
//# tier: thorough
//# timeout: 1400
//# encodes: layer_3::ipv6::repl
//# encodes: pnet_packet checksum helpers (icmpv6::checksum, tcp::ipv6_checksum, udp::ipv6_checksum)
//# bounds: 40-byte IPv6 request header symbolic (version, traffic class, flow label, payload length, hop limit free; source and destination address: octets 0, 14, 15 symbolic, others zero), next header = UDP, 8 transport bytes in the request; layer-4 reply of 9 arbitrary bytes or silence (ICMPv6: echo-style reply, or type 136 + solicited target); no self-IP list and no deny list (the scope filters are decided by c02_ipv6_scope_* and *_other_proto)
//# stubs: layer_4::{icmpv6,tcp,udp}::repl -> None or a transport packet of 9 arbitrary bytes (UDP: length field = 9; ICMPv6 NA: the returned target belongs to the self-IP list when one is configured - lemma c05_nd_*)
//# out: extension headers (not parsed by the implementation); other reply lengths
//# known: c02.icmpv6_echo_foreign_destination
//# known: c04.udp6_zero_checksum
//# cover: reply emitted
//# cover: layer 4 silent
#[kani::proof]
#[kani::unwind(44)]
#[kani::stub(crate::layer_4::icmpv6::repl, crate::verif_util::l4_icmpv6_stub)]
#[kani::stub(crate::layer_4::tcp::repl, crate::verif_util::l4_tcp_stub)]
#[kani::stub(crate::layer_4::udp::repl, crate::verif_util::l4_udp_stub)]
fn c04_ipv6_udp_9() {
    ipv6_case(Some(17), 8, 9, false)
}

//# harness: c04_ipv6_udp_12
//# props: C04 C03
//# tier: thorough
//# encodes: layer_3::ipv6::repl
//# encodes: pnet_packet checksum helpers (icmpv6::checksum, tcp::ipv6_checksum, udp::ipv6_checksum)
//# bounds: 40-byte IPv6 request header symbolic (version, traffic class, flow label, payload length, hop limit free; source and destination address: octets 0, 14, 15 symbolic, others zero), next header = UDP, 10 transport bytes in the request; layer-4 reply of 12 arbitrary bytes or silence (ICMPv6: echo-style reply, or type 136 + solicited target); no self-IP list and no deny list (the scope filters are decided by c02_ipv6_scope_* and *_other_proto)
//# stubs: layer_4::{icmpv6,tcp,udp}::repl -> None or a transport packet of 12 arbitrary bytes (UDP: length field = 12; ICMPv6 NA: the returned target belongs to the self-IP list when one is configured - lemma c05_nd_*)
//# out: extension headers (not parsed by the implementation); other reply lengths
//# known: c02.icmpv6_echo_foreign_destination
//# known: c04.udp6_zero_checksum
//# cover: reply emitted
#[kani::proof]
#[kani::unwind(44)]
#[kani::stub(crate::layer_4::icmpv6::repl, crate::verif_util::l4_icmpv6_stub)]
#[kani::stub(crate::layer_4::tcp::repl, crate::verif_util::l4_tcp_stub)]
#[kani::stub(crate::layer_4::udp::repl, crate::verif_util::l4_udp_stub)]
fn c04_ipv6_udp_12() {
    ipv6_case(Some(17), 10, 12, false)
}

//# harness: c04_ipv6_icmp_8
//# props: C04 C03 C01
//# tier: thorough
//# timeout: 1400
//# encodes: layer_3::ipv6::repl
//# encodes: pnet_packet checksum helpers (icmpv6::checksum, tcp::ipv6_checksum, udp::ipv6_checksum)
//# bounds: 40-byte IPv6 request header symbolic (version, traffic class, flow label, payload length, hop limit free; source and destination address: octets 0, 14, 15 symbolic, others zero), next header = ICMPv6, 8 transport bytes in the request; layer-4 reply of 8 arbitrary bytes or silence (ICMPv6: echo-style reply, or type 136 + solicited target); no self-IP list and no deny list (the scope filters are decided by c02_ipv6_scope_* and *_other_proto)
//# stubs: layer_4::{icmpv6,tcp,udp}::repl -> None or a transport packet of 8 arbitrary bytes (UDP: length field = 8; ICMPv6 NA: the returned target belongs to the self-IP list when one is configured - lemma c05_nd_*)
//# out: extension headers (not parsed by the implementation); other reply lengths
//# known: c02.icmpv6_echo_foreign_destination
//# known: c04.udp6_zero_checksum
//# cover: reply emitted
//# cover: layer 4 silent
//# cover: neighbour advertisement emitted
#[kani::proof]
#[kani::unwind(44)]
#[kani::stub(crate::layer_4::icmpv6::repl, crate::verif_util::l4_icmpv6_stub)]
#[kani::stub(crate::layer_4::tcp::repl, crate::verif_util::l4_tcp_stub)]
#[kani::stub(crate::layer_4::udp::repl, crate::verif_util::l4_udp_stub)]
fn c04_ipv6_icmp_8() {
    ipv6_case(Some(58), 8, 8, false)
}

//# harness: c04_ipv6_icmp_33
//# props: C04 C03
//# tier: extended
//# encodes: layer_3::ipv6::repl
//# encodes: pnet_packet checksum helpers (icmpv6::checksum, tcp::ipv6_checksum, udp::ipv6_checksum)
//# bounds: 40-byte IPv6 request header symbolic (version, traffic class, flow label, payload length, hop limit free; source and destination address: octets 0, 14, 15 symbolic, others zero), next header = ICMPv6, 24 transport bytes in the request; layer-4 reply of 33 arbitrary bytes or silence (ICMPv6: echo-style reply, or type 136 + solicited target); no self-IP list and no deny list (the scope filters are decided by c02_ipv6_scope_* and *_other_proto)
//# stubs: layer_4::{icmpv6,tcp,udp}::repl -> None or a transport packet of 33 arbitrary bytes (UDP: length field = 33; ICMPv6 NA: the returned target belongs to the self-IP list when one is configured - lemma c05_nd_*)
//# out: extension headers (not parsed by the implementation); other reply lengths
//# known: c02.icmpv6_echo_foreign_destination
//# known: c04.udp6_zero_checksum
//# cover: reply emitted
//# cover: neighbour advertisement emitted
#[kani::proof]
#[kani::unwind(44)]
#[kani::stub(crate::layer_4::icmpv6::repl, crate::verif_util::l4_icmpv6_stub)]
#[kani::stub(crate::layer_4::tcp::repl, crate::verif_util::l4_tcp_stub)]
#[kani::stub(crate::layer_4::udp::repl, crate::verif_util::l4_udp_stub)]
fn c04_ipv6_icmp_33() {
    ipv6_case(Some(58), 24, 33, false)
}

//# harness: c02_ipv6_other_proto
//# props: C02 C01
//# tier: quick
//# encodes: layer_3::ipv6::repl
//# encodes: pnet_packet checksum helpers (icmpv6::checksum, tcp::ipv6_checksum, udp::ipv6_checksum)
//# bounds: 40-byte IPv6 request header symbolic (version, traffic class, flow label, payload length, hop limit free; source and destination address: octets 0, 14, 15 symbolic, others zero), next header = any next header outside {58,6,17}, 4 transport bytes in the request; layer-4 reply of 8 arbitrary bytes or silence (ICMPv6: echo-style reply, or type 136 + solicited target); self-IP list absent or {a6} symbolic; deny list absent or {d6} symbolic
//# stubs: layer_4::{icmpv6,tcp,udp}::repl -> None or a transport packet of 8 arbitrary bytes (UDP: length field = 8; ICMPv6 NA: the returned target belongs to the self-IP list when one is configured - lemma c05_nd_*)
//# out: extension headers (not parsed by the implementation); other reply lengths
//# known: c02.icmpv6_echo_foreign_destination
//# known: c04.udp6_zero_checksum

#[kani::proof]
#[kani::unwind(44)]
#[kani::stub(crate::layer_4::icmpv6::repl, crate::verif_util::l4_icmpv6_stub)]
#[kani::stub(crate::layer_4::tcp::repl, crate::verif_util::l4_tcp_stub)]
#[kani::stub(crate::layer_4::udp::repl, crate::verif_util::l4_udp_stub)]
fn c02_ipv6_other_proto() {
    ipv6_case(None, 4, 8, true)
}

//# harness: c01_ipv6_tcp_short
//# props: C01
//# tier: thorough
//# encodes: layer_3::ipv6::repl
//# encodes: pnet_packet checksum helpers (icmpv6::checksum, tcp::ipv6_checksum, udp::ipv6_checksum)
//# bounds: 40-byte IPv6 request header symbolic (version, traffic class, flow label, payload length, hop limit free; source and destination address: octets 0, 14, 15 symbolic, others zero), next header = TCP, 19 transport bytes in the request; layer-4 reply of 20 arbitrary bytes or silence (ICMPv6: echo-style reply, or type 136 + solicited target); self-IP list absent or {a6} symbolic; deny list absent or {d6} symbolic
//# stubs: layer_4::{icmpv6,tcp,udp}::repl -> None or a transport packet of 20 arbitrary bytes (UDP: length field = 20; ICMPv6 NA: the returned target belongs to the self-IP list when one is configured - lemma c05_nd_*)
//# out: extension headers (not parsed by the implementation); other reply lengths
//# known: c02.icmpv6_echo_foreign_destination
//# known: c04.udp6_zero_checksum
//# cover: transport header too short
#[kani::proof]
#[kani::unwind(44)]
#[kani::stub(crate::layer_4::icmpv6::repl, crate::verif_util::l4_icmpv6_stub)]
#[kani::stub(crate::layer_4::tcp::repl, crate::verif_util::l4_tcp_stub)]
#[kani::stub(crate::layer_4::udp::repl, crate::verif_util::l4_udp_stub)]
fn c01_ipv6_tcp_short() {
    ipv6_case(Some(6), 19, 20, true)
}

//# harness: c01_ipv6_udp_short
//# props: C01
//# tier: thorough
//# encodes: layer_3::ipv6::repl
//# encodes: pnet_packet checksum helpers (icmpv6::checksum, tcp::ipv6_checksum, udp::ipv6_checksum)
//# bounds: 40-byte IPv6 request header symbolic (version, traffic class, flow label, payload length, hop limit free; source and destination address: octets 0, 14, 15 symbolic, others zero), next header = UDP, 7 transport bytes in the request; layer-4 reply of 8 arbitrary bytes or silence (ICMPv6: echo-style reply, or type 136 + solicited target); self-IP list absent or {a6} symbolic; deny list absent or {d6} symbolic
//# stubs: layer_4::{icmpv6,tcp,udp}::repl -> None or a transport packet of 8 arbitrary bytes (UDP: length field = 8; ICMPv6 NA: the returned target belongs to the self-IP list when one is configured - lemma c05_nd_*)
//# out: extension headers (not parsed by the implementation); other reply lengths
//# known: c02.icmpv6_echo_foreign_destination
//# known: c04.udp6_zero_checksum
//# cover: transport header too short
#[kani::proof]
#[kani::unwind(44)]
#[kani::stub(crate::layer_4::icmpv6::repl, crate::verif_util::l4_icmpv6_stub)]
#[kani::stub(crate::layer_4::tcp::repl, crate::verif_util::l4_tcp_stub)]
#[kani::stub(crate::layer_4::udp::repl, crate::verif_util::l4_udp_stub)]
fn c01_ipv6_udp_short() {
    ipv6_case(Some(17), 7, 8, true)
}

//# harness: c01_ipv6_icmp_short
//# props: C01
//# tier: quick
//# encodes: layer_3::ipv6::repl
//# encodes: pnet_packet checksum helpers (icmpv6::checksum, tcp::ipv6_checksum, udp::ipv6_checksum)
//# bounds: 40-byte IPv6 request header symbolic (version, traffic class, flow label, payload length, hop limit free; source and destination address: octets 0, 14, 15 symbolic, others zero), next header = ICMPv6, 3 transport bytes in the request; layer-4 reply of 8 arbitrary bytes or silence (ICMPv6: echo-style reply, or type 136 + solicited target); self-IP list absent or {a6} symbolic; deny list absent or {d6} symbolic
//# stubs: layer_4::{icmpv6,tcp,udp}::repl -> None or a transport packet of 8 arbitrary bytes (UDP: length field = 8; ICMPv6 NA: the returned target belongs to the self-IP list when one is configured - lemma c05_nd_*)
//# out: extension headers (not parsed by the implementation); other reply lengths
//# known: c02.icmpv6_echo_foreign_destination
//# known: c04.udp6_zero_checksum
//# cover: transport header too short
#[kani::proof]
#[kani::unwind(44)]
#[kani::stub(crate::layer_4::icmpv6::repl, crate::verif_util::l4_icmpv6_stub)]
#[kani::stub(crate::layer_4::tcp::repl, crate::verif_util::l4_tcp_stub)]
#[kani::stub(crate::layer_4::udp::repl, crate::verif_util::l4_udp_stub)]
fn c01_ipv6_icmp_short() {
    ipv6_case(Some(58), 3, 8, true)
}

fn ipv6_events(proto: Option<u8>, m: usize, n: usize) {
    let mut buf: [u8; 64] = kani::any();
    match proto {
        Some(p) => buf[6] = p,
        None => kani::assume(buf[6] != 58 && buf[6] != 6 && buf[6] != 17),
    }
    let ip_req = Ipv6Packet::new(&buf[..40 + m]).unwrap();
    let a6 = any_ip6();
    let mut s_set = HashSet::new();
    s_set.insert(IpAddr::V6(a6));
    let s_on: bool = kani::any();
    let mut masscanned = ms_counting([0, 0], any_mac());
    if s_on {
        masscanned.self_ip_list = Some(&s_set);
        l4_rec().cfg_s6 = Some(a6);
    }
    l4_rec().cfg_len = n;
    let mut ci = ClientInfo::new();
    let r = repl(&ip_req, &masscanned, &mut ci);
    assert!(balanced(L_IPV6, r.is_some()), "C20: IPv6 layer did not log exactly one recv and one terminal event (send iff answered)");
    let shown = ev(L_IPV6).ci_recv.unwrap();
    assert!(shown.ip.src == Some(IpAddr::V6(ip_req.get_source())) && shown.ip.dst == Some(IpAddr::V6(ip_req.get_destination())), "C20: addresses shown to the logger are not the packet's");
    if l4_rec().calls == 1 {
        assert!(l4_rec().seq_at_call > ev(L_IPV6).seq_recv && l4_rec().seq_at_call < ev(L_IPV6).seq_term, "C20: inner layer not nested inside the IPv6 events");
    }
    kani::cover!(r.is_some(), "answered");
    kani::cover!(r.is_none() && l4_rec().calls == 0, "dropped before layer 4");
}

//# harness: c20_ipv6_events_udp
//# props: C20
//# tier: quick
//# encodes: layer_3::ipv6::repl
//# encodes: logger::MetaLogger::{ipv6_recv,ipv6_send,ipv6_drop}
//# bounds: 40-byte IPv6 header symbolic, next header UDP, 8 transport bytes; layer-4 reply of 8 bytes or silence; self-IP list absent or {a6}
//# stubs: layer_4::{icmpv6,tcp,udp}::repl -> contract stubs recording the event sequence number at call time
//# cover: answered
//# cover: dropped before layer 4
#[kani::proof]
#[kani::unwind(44)]
#[kani::stub(crate::layer_4::icmpv6::repl, crate::verif_util::l4_icmpv6_stub)]
#[kani::stub(crate::layer_4::tcp::repl, crate::verif_util::l4_tcp_stub)]
#[kani::stub(crate::layer_4::udp::repl, crate::verif_util::l4_udp_stub)]
fn c20_ipv6_events_udp() {
    ipv6_events(Some(17), 8, 8)
}

//# harness: c20_ipv6_events_icmp
//# props: C20
//# tier: thorough
//# encodes: layer_3::ipv6::repl
//# bounds: next header ICMPv6, 8 transport bytes, layer-4 reply of 8 bytes (echo or NA + target) or silence
//# stubs: layer_4::{icmpv6,tcp,udp}::repl -> contract stubs
//# cover: answered
#[kani::proof]
#[kani::unwind(44)]
#[kani::stub(crate::layer_4::icmpv6::repl, crate::verif_util::l4_icmpv6_stub)]
#[kani::stub(crate::layer_4::tcp::repl, crate::verif_util::l4_tcp_stub)]
#[kani::stub(crate::layer_4::udp::repl, crate::verif_util::l4_udp_stub)]
fn c20_ipv6_events_icmp() {
    ipv6_events(Some(58), 8, 8)
}

//# harness: c02_ipv6_scope_icmp
//# props: C02 C03 C01
//# tier: thorough
//# timeout: 1400
//# encodes: layer_3::ipv6::repl (scope filters and address mirroring)
//# bounds: IPv6 request header symbolic, protocol 58, 8 transport bytes; layer-4 reply of 8 arbitrary bytes or silence; self-IP list absent or {a6} symbolic; deny list absent or one symbolic address; transport checksums are NOT asserted here (decided by c04_ipv6_*)
//# stubs: layer-4 entry points -> None or a transport packet of 8 arbitrary bytes
//# known: c02.icmpv6_echo_foreign_destination
//# known: c04.udp6_zero_checksum
//# cover: reply emitted
//# cover: dropped: source on deny list
//# cover: neighbour advertisement emitted
#[kani::proof]
#[kani::unwind(44)]
#[kani::stub(crate::layer_4::icmpv6::repl, crate::verif_util::l4_icmpv6_stub)]
#[kani::stub(crate::layer_4::tcp::repl, crate::verif_util::l4_tcp_stub)]
#[kani::stub(crate::layer_4::udp::repl, crate::verif_util::l4_udp_stub)]
fn c02_ipv6_scope_icmp() {
    ipv6_case(Some(58), 8, 8, true)
}

//# harness: c02_ipv6_scope_udp
//# props: C02 C03 C01
//# tier: thorough
//# timeout: 1400
//# encodes: layer_3::ipv6::repl (scope filters and address mirroring)
//# bounds: IPv6 request header symbolic, protocol 17, 8 transport bytes; layer-4 reply of 8 arbitrary bytes or silence; self-IP list absent or {a6} symbolic; deny list absent or one symbolic address; transport checksums are NOT asserted here (decided by c04_ipv6_*)
//# stubs: layer-4 entry points -> None or a transport packet of 8 arbitrary bytes
//# known: c02.icmpv6_echo_foreign_destination
//# known: c04.udp6_zero_checksum
//# cover: reply emitted
//# cover: dropped: destination not in self-IP list
//# cover: dropped: source on deny list
#[kani::proof]
#[kani::unwind(44)]
#[kani::stub(crate::layer_4::icmpv6::repl, crate::verif_util::l4_icmpv6_stub)]
#[kani::stub(crate::layer_4::tcp::repl, crate::verif_util::l4_tcp_stub)]
#[kani::stub(crate::layer_4::udp::repl, crate::verif_util::l4_udp_stub)]
fn c02_ipv6_scope_udp() {
    ipv6_case(Some(17), 8, 8, true)
}

/// targeted deny-list instance: the source address IS the denied address (by construction), the
/// next header is arbitrary (incl. ICMPv6, TCP, UDP), no self-IP list: nothing may be answered and
/// layer 4 must not be reached
fn ipv6_denied_source() {
    let mut buf: [u8; 48] = kani::any();
    let d6: [u8; 16] = kani::any();
    let mut i = 0;
    while i < 16 {
        buf[8 + i] = d6[i];
        i += 1;
    }
    let ip_req = Ipv6Packet::new(&buf[..48]).unwrap();
    let mut d_set = HashSet::new();
    d_set.insert(IpAddr::V6(Ipv6Addr::from(d6)));
    let mut masscanned = ms_plain([0, 0], any_mac());
    masscanned.remote_ip_deny_list = Some(&d_set);
    l4_rec().cfg_len = 8;
    let mut ci = ClientInfo::new();
    let r = repl(&ip_req, &masscanned, &mut ci);
    assert!(r.is_none(), "C02: IPv6 packet from a denied source answered");
    assert!(l4_rec().calls == 0, "C02: IPv6 packet from a denied source reached layer 4");
    kani::cover!(buf[6] == 58, "denied ICMPv6 dropped");
    kani::cover!(buf[6] == 6, "denied TCP dropped");
}

//# harness: c02_ipv6_denied_source
//# props: C02 C01
//# tier: quick
//# encodes: layer_3::ipv6::repl (deny-list filter)
//# bounds: 40-byte IPv6 header + 8 transport bytes, all symbolic incl. the next header (ICMPv6, TCP, UDP, anything); deny list = {d6} with d6 symbolic and the packet's source address equal to it; no self-IP list
//# stubs: layer_4::{icmpv6,tcp,udp}::repl -> contract stubs (must not be reached)
//# cover: denied ICMPv6 dropped
//# cover: denied TCP dropped
#[kani::proof]
#[kani::unwind(44)]
#[kani::stub(crate::layer_4::icmpv6::repl, crate::verif_util::l4_icmpv6_stub)]
#[kani::stub(crate::layer_4::tcp::repl, crate::verif_util::l4_tcp_stub)]
#[kani::stub(crate::layer_4::udp::repl, crate::verif_util::l4_udp_stub)]
fn c02_ipv6_denied_source() {
    ipv6_denied_source()
}


//# harness: c03_ipv6_mirror_icmp
//# props: C03 C04 C01
//# tier: quick
//# encodes: layer_3::ipv6::repl
//# bounds: 40-byte IPv6 request header symbolic (version, traffic class, flow label, payload length, hop limit free; source and destination address: octets 0, 14, 15 symbolic, others zero), next header = ICMPv6, 8 transport bytes in the request; layer-4 reply of 8 arbitrary bytes or silence (echo-style reply, or type 136 + solicited target - any target, any destination, multicast or not); no self-IP list and no deny list
//# stubs: layer_4::{icmpv6,tcp,udp}::repl -> None or a transport packet of 8 arbitrary bytes (ICMPv6 NA: with the solicited target)
//# out: transport checksum (c04_ipv6_*); scope filters (c02_ipv6_*); extension headers
//# known: c02.icmpv6_echo_foreign_destination
//# cover: reply emitted
//# cover: layer 4 silent
//# cover: neighbour advertisement emitted
#[kani::proof]
#[kani::unwind(44)]
#[kani::stub(crate::layer_4::icmpv6::repl, crate::verif_util::l4_icmpv6_stub)]
#[kani::stub(crate::layer_4::tcp::repl, crate::verif_util::l4_tcp_stub)]
#[kani::stub(crate::layer_4::udp::repl, crate::verif_util::l4_udp_stub)]
fn c03_ipv6_mirror_icmp() {
    ipv6_case_ex(Some(58), 8, 8, false, false)
}
