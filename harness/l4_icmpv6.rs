//@ target: src/layer_4/icmpv6.rs
//@ mod: verif_icmpv6
// The real `layer_4::icmpv6::repl` + `nd_ns_repl`: neighbour solicitation -> advertisement,
// echo request -> echo reply, everything else -> silence (C05, C12, C02 advertised address).
use crate::client::ClientInfo;
use crate::verif_util::*;
use crate::{proto, Masscanned};
use pnet::packet::icmpv6::{Icmpv6Packet, MutableIcmpv6Packet};
use pnet::packet::Packet;
use pnet::util::MacAddr;
use crate::kshim::collections::HashSet;
use std::net::{IpAddr, Ipv4Addr, Ipv6Addr};

/// ty: Some(t) fixes the ICMPv6 type (concrete), None leaves it symbolic outside {128,135}
fn icmp6_case(ty: Option<u8>, n: usize) {
    let mut buf: [u8; 40] = kani::any();
    match ty {
        Some(t) => buf[0] = t,
        None => kani::assume(buf[0] != 128 && buf[0] != 135),
    }
    let req = Icmpv6Packet::new(&buf[..n]).unwrap();
    let a6 = any_ip6();
    let mut s_set = HashSet::new();
    s_set.insert(IpAddr::V6(a6));
    let s_on: bool = kani::any();
    let mac_b: [u8; 6] = kani::any();
    let mut masscanned = ms_plain([0, 0], MacAddr::from(mac_b));
    if s_on {
        masscanned.self_ip_list = Some(&s_set);
    }
    let ci = ClientInfo::new();
    let q: u32 = kani::any();
    let before = proto::is_tcb_set(q);
    let (r, dst) = repl(&req, &masscanned, &ci);
    assert!(proto::is_tcb_set(q) == before, "C09: ICMPv6 changed the connection table");
    let code0 = buf[1] == 0;
    if !code0 {
        assert!(r.is_none() && dst.is_none(), "C05: ICMPv6 message with non-zero code answered");
        kani::cover!(true, "non-zero code ignored");
        return;
    }
    match buf[0] {
        135 => {
            if n < 24 {
                // truncated solicitation: no target to advertise
                assert!(r.is_none() && dst.is_none(), "C05: truncated neighbour solicitation answered");
                kani::cover!(true, "truncated solicitation ignored");
                return;
            }
            let mut t = [0u8; 16];
            t.copy_from_slice(&buf[8..24]);
            let target = Ipv6Addr::from(t);
            let handled = !s_on || target == a6;
            match r {
                Some(p) => {
                    assert!(handled, "C02: neighbour advertisement for an address outside the self-IP list");
                    assert!(dst == Some(target), "C03: solicited target not handed to layer 3 as the reply source");
                    let b = p.packet();
                    assert!(b.len() >= 32 && b.len() % 8 == 0, "C05: neighbour advertisement does not hold 24 bytes + an 8-byte option");
                    assert!(b[0] == 136 && b[1] == 0, "C05: reply is not a code-0 neighbour advertisement");
                    assert!(b[4] & 0x60 == 0x60, "C05: Solicited and Override flags not both set");
                    let i: usize = kani::any();
                    kani::assume(i < 16);
                    assert!(b[8 + i] == buf[8 + i], "C05: advertised target differs from the solicited target");
                    assert!(b[24] == 2 && b[25] == 1, "C05: option is not a Target Link-Layer Address of length 1");
                    let j: usize = kani::any();
                    kani::assume(j < 6);
                    assert!(b[26 + j] == mac_b[j], "C05: link-layer address option does not hold the configured MAC");
                    kani::cover!(true, "neighbour advertisement sent");
                }
                None => {
                    assert!(!handled, "C05: solicitation for a handled target not answered");
                    assert!(dst.is_none(), "C03: address substituted without a reply");
                    kani::cover!(true, "solicitation for foreign target ignored");
                }
            }
        }
        128 => {
            let p = match r {
                Some(p) => p,
                None => {
                    assert!(false, "C05: code-0 echo request not answered");
                    return;
                }
            };
            assert!(dst.is_none(), "C03: echo reply substitutes the source address");
            let b = p.packet();
            assert!(b.len() == n, "C05: echo reply length differs from the request");
            assert!(b[0] == 129 && b[1] == 0, "C05: reply is not a code-0 echo reply");
            if n > 4 {
                let i: usize = kani::any();
                kani::assume(i >= 4 && i < n);
                assert!(b[i] == buf[i], "C05: identifier / sequence number / data not echoed");
            }
            kani::cover!(true, "echo answered");
        }
        _ => {
            assert!(r.is_none() && dst.is_none(), "C05/C12: ICMPv6 type other than echo request / neighbour solicitation answered");
            kani::cover!(buf[0] == 129, "C12 echo reply ignored");
            kani::cover!(buf[0] == 136, "C12 neighbour advertisement ignored");
        }
    }
}

//# harness: c05_nd_ns_24
//# props: C05 C02 C03 C01
//# tier: quick
//# encodes: layer_4::icmpv6::repl
//# encodes: layer_4::icmpv6::nd_ns_repl
//# bounds: ICMPv6 message of 24 bytes, type 135 (neighbour solicitation), code and all other bytes symbolic; MAC symbolic; self-IP list absent or one symbolic address of the relevant family
//# out: longer messages (payload copy is uniform); solicitations carrying more than one option
//# cover: neighbour advertisement sent
//# cover: solicitation for foreign target ignored
//# cover: non-zero code ignored
#[kani::proof]
#[kani::unwind(40)]
fn c05_nd_ns_24() {
    icmp6_case(Some(135), 24)
}

//# harness: c05_nd_ns_32
//# props: C05 C02 C03 C01
//# tier: thorough
//# encodes: layer_4::icmpv6::repl
//# encodes: layer_4::icmpv6::nd_ns_repl
//# bounds: ICMPv6 message of 32 bytes, type 135 (neighbour solicitation), code and all other bytes symbolic; MAC symbolic; self-IP list absent or one symbolic address of the relevant family
//# out: longer messages (payload copy is uniform); solicitations carrying more than one option
//# cover: neighbour advertisement sent
#[kani::proof]
#[kani::unwind(40)]
fn c05_nd_ns_32() {
    icmp6_case(Some(135), 32)
}

//# harness: c01_nd_ns_short_8
//# props: C01 C05
//# tier: quick
//# encodes: layer_4::icmpv6::repl
//# encodes: layer_4::icmpv6::nd_ns_repl
//# bounds: ICMPv6 message of 8 bytes, type 135 (neighbour solicitation), code and all other bytes symbolic; MAC symbolic; self-IP list absent or one symbolic address of the relevant family
//# out: longer messages (payload copy is uniform); solicitations carrying more than one option
//# cover: truncated solicitation ignored
#[kani::proof]
#[kani::unwind(40)]
fn c01_nd_ns_short_8() {
    icmp6_case(Some(135), 8)
}

//# harness: c01_nd_ns_short_23
//# props: C01 C05
//# tier: thorough
//# encodes: layer_4::icmpv6::repl
//# encodes: layer_4::icmpv6::nd_ns_repl
//# bounds: ICMPv6 message of 23 bytes, type 135 (neighbour solicitation), code and all other bytes symbolic; MAC symbolic; self-IP list absent or one symbolic address of the relevant family
//# out: longer messages (payload copy is uniform); solicitations carrying more than one option
//# cover: truncated solicitation ignored
#[kani::proof]
#[kani::unwind(40)]
fn c01_nd_ns_short_23() {
    icmp6_case(Some(135), 23)
}

//# harness: c05_icmp6_echo_12
//# props: C05 C01
//# tier: quick
//# encodes: layer_4::icmpv6::repl
//# encodes: layer_4::icmpv6::nd_ns_repl
//# bounds: ICMPv6 message of 12 bytes, type 128 (echo request), code and all other bytes symbolic; MAC symbolic; self-IP list absent or one symbolic address of the relevant family
//# out: longer messages (payload copy is uniform); solicitations carrying more than one option
//# cover: echo answered
//# cover: non-zero code ignored
#[kani::proof]
#[kani::unwind(40)]
fn c05_icmp6_echo_12() {
    icmp6_case(Some(128), 12)
}

//# harness: c05_icmp6_echo_4
//# props: C05 C01
//# tier: thorough
//# encodes: layer_4::icmpv6::repl
//# encodes: layer_4::icmpv6::nd_ns_repl
//# bounds: ICMPv6 message of 4 bytes, type 128 (echo request), code and all other bytes symbolic; MAC symbolic; self-IP list absent or one symbolic address of the relevant family
//# out: longer messages (payload copy is uniform); solicitations carrying more than one option
//# cover: echo answered
#[kani::proof]
#[kani::unwind(40)]
fn c05_icmp6_echo_4() {
    icmp6_case(Some(128), 4)
}

//# harness: c05_icmp6_echo_15
//# props: C05
//# tier: thorough
//# encodes: layer_4::icmpv6::repl
//# encodes: layer_4::icmpv6::nd_ns_repl
//# bounds: ICMPv6 message of 15 bytes, type 128 (echo request), code and all other bytes symbolic; MAC symbolic; self-IP list absent or one symbolic address of the relevant family
//# out: longer messages (payload copy is uniform); solicitations carrying more than one option
//# cover: echo answered
#[kani::proof]
#[kani::unwind(40)]
fn c05_icmp6_echo_15() {
    icmp6_case(Some(128), 15)
}

//# harness: c05_icmp6_other_8
//# props: C05 C12 C01
//# tier: quick
//# encodes: layer_4::icmpv6::repl
//# encodes: layer_4::icmpv6::nd_ns_repl
//# bounds: ICMPv6 message of 8 bytes, type symbolic over all values except 128 and 135, code and all other bytes symbolic; MAC symbolic; self-IP list absent or one symbolic address of the relevant family
//# out: longer messages (payload copy is uniform); solicitations carrying more than one option
//# cover: C12 echo reply ignored
//# cover: C12 neighbour advertisement ignored
#[kani::proof]
#[kani::unwind(40)]
fn c05_icmp6_other_8() {
    icmp6_case(None, 8)
}

//# harness: c05_icmp6_other_32
//# props: C05 C12
//# tier: thorough
//# encodes: layer_4::icmpv6::repl
//# encodes: layer_4::icmpv6::nd_ns_repl
//# bounds: ICMPv6 message of 32 bytes, type symbolic over all values except 128 and 135, code and all other bytes symbolic; MAC symbolic; self-IP list absent or one symbolic address of the relevant family
//# out: longer messages (payload copy is uniform); solicitations carrying more than one option
//# cover: C12 neighbour advertisement ignored
#[kani::proof]
#[kani::unwind(40)]
fn c05_icmp6_other_32() {
    icmp6_case(None, 32)
}

fn icmp6_events(ty: Option<u8>, n: usize) {
    let mut buf: [u8; 32] = kani::any();
    match ty {
        Some(t) => buf[0] = t,
        None => kani::assume(buf[0] != 128 && buf[0] != 135),
    }
    let req = Icmpv6Packet::new(&buf[..n]).unwrap();
    let a6 = any_ip6();
    let mut s_set = HashSet::new();
    s_set.insert(IpAddr::V6(a6));
    let s_on: bool = kani::any();
    let mut masscanned = ms_counting([0, 0], any_mac());
    if s_on {
        masscanned.self_ip_list = Some(&s_set);
    }
    let ci = ClientInfo::new();
    let (r, _dst) = repl(&req, &masscanned, &ci);
    if crate::verif_known::C20_ICMPV6_NONZERO_CODE_NO_DROP && buf[1] != 0 {
        kani::cover!(ev(L_ICMPV6).send + ev(L_ICMPV6).drop == 0, "KF:c20.icmpv6_nonzero_code_no_drop");
    } else {
        assert!(balanced(L_ICMPV6, r.is_some()), "C20: ICMPv6 layer did not log exactly one recv and one terminal event (send iff answered)");
    }
    kani::cover!(r.is_some(), "answered");
    kani::cover!(r.is_none(), "dropped");
}

//# harness: c20_icmpv6_events_ns
//# props: C20
//# tier: quick
//# encodes: layer_4::icmpv6::repl, nd_ns_repl
//# encodes: logger::MetaLogger::{icmpv6_recv,icmpv6_send,icmpv6_drop}
//# bounds: 24-byte neighbour solicitation, code and all bytes symbolic; self-IP list absent or {a6}
//# known: c20.icmpv6_nonzero_code_no_drop
//# cover: answered
//# cover: dropped
#[kani::proof]
#[kani::unwind(40)]
fn c20_icmpv6_events_ns() {
    icmp6_events(Some(135), 24)
}

//# harness: c20_icmpv6_events_other
//# props: C20
//# tier: quick
//# encodes: layer_4::icmpv6::repl
//# bounds: 8-byte ICMPv6 message of any type except 135 (echo request, replies, everything else), code symbolic
//# known: c20.icmpv6_nonzero_code_no_drop
//# cover: dropped
#[kani::proof]
#[kani::unwind(40)]
fn c20_icmpv6_events_other() {
    let t: u8 = kani::any();
    kani::assume(t != 135);
    icmp6_events_any(t)
}
fn icmp6_events_any(t: u8) {
    let mut buf: [u8; 8] = kani::any();
    buf[0] = t;
    let req = Icmpv6Packet::new(&buf[..]).unwrap();
    let masscanned = ms_counting([0, 0], any_mac());
    let ci = ClientInfo::new();
    let (r, _dst) = repl(&req, &masscanned, &ci);
    if crate::verif_known::C20_ICMPV6_NONZERO_CODE_NO_DROP && buf[1] != 0 {
        kani::cover!(ev(L_ICMPV6).send + ev(L_ICMPV6).drop == 0, "KF:c20.icmpv6_nonzero_code_no_drop");
    } else {
        assert!(balanced(L_ICMPV6, r.is_some()), "C20: ICMPv6 layer did not log exactly one recv and one terminal event (send iff answered)");
    }
    kani::cover!(r.is_none(), "dropped");
}
