//@ target: src/proto/ssh.rs
//@ mod: verif_ssh
// The real SSH banner parser/responder `ssh::repl` (C18, C01).
use crate::client::ClientInfo;
use crate::verif_util::*;
use crate::Masscanned;
use pnet::util::MacAddr;

/// Reference acceptor for  SSH-<digits and dots>-<software>[ SP comment] CR LF  on a buffer
/// that starts with "SSH-".  Some(true)/Some(false) = must / must not be answered;
/// None = the property's wording does not settle it (empty software name).
fn ref_accept(d: &[u8]) -> Option<bool> {
    let n = d.len();
    let mut i = 4;
    loop {
        if i >= n {
            return Some(false);
        }
        let c = d[i];
        i += 1;
        if c == b'-' {
            break;
        }
        if !((c >= b'0' && c <= b'9') || c == b'.') {
            return Some(false);
        }
    }
    let sw = i;
    let mut j = sw;
    while j + 1 < n {
        if d[j] == b'\r' && d[j + 1] == b'\n' {
            if j == sw || d[sw] == b' ' {
                return None;
            }
            return Some(true);
        }
        j += 1;
    }
    Some(false)
}

/// prefix = the dispatcher's signature ("SSH-2.0" / "SSH-1.99"), followed by `free`
/// arbitrary bytes
fn ssh_banner(prefix: &[u8], free: usize, level: log::LevelFilter) {
    log::set_max_level(level);
    let tail: [u8; 9] = kani::any();
    let mut d = [0u8; 17];
    let mut i = 0;
    while i < prefix.len() {
        d[i] = prefix[i];
        i += 1;
    }
    let mut k = 0;
    while k < free {
        d[prefix.len() + k] = tail[k];
        k += 1;
    }
    let n = prefix.len() + free;
    let masscanned = ms_plain([0, 0], MacAddr::new(0, 1, 2, 3, 4, 5));
    let ci = ClientInfo::new();
    let r = repl(&d[..n], &masscanned, &ci, None);
    let want = ref_accept(&d[..n]);
    match r {
        Some(v) => {
            assert!(want != Some(false), "C18: unterminated or malformed SSH identification answered");
            let exp = b"SSH-2.0-1\r\n";
            assert!(v.len() == exp.len(), "C18: SSH reply is not exactly SSH-2.0-1 CR LF");
            let mut q = 0;
            while q < exp.len() {
                assert!(v[q] == exp[q], "C18: SSH reply is not exactly SSH-2.0-1 CR LF");
                q += 1;
            }
            kani::cover!(true, "banner answered");
            kani::cover!(want == Some(true) && tail[1] == b'\r' && tail[2] != b'\n', "lone CR inside software accepted");
        }
        None => {
            assert!(want != Some(true), "C18: well-formed SSH identification not answered");
            kani::cover!(true, "banner not answered");
            kani::cover!(tail[free - 1] == b'\n' && tail[free - 2] != b'\r', "bare LF is not a terminator");
        }
    }
}

//# harness: c18_ssh_2_0_free6
//# props: C18 C01 C19
//# tier: thorough
//# timeout: 1200
//# encodes: proto::ssh::repl, proto::ssh::ssh_parse
//# bounds: identification = "SSH-2.0" (the dispatcher's signature) + 6 arbitrary bytes (version continuation, '-', software, SP, comment, lone CR, CR LF, bare LF, NUL, non-ASCII); log level Off
//# assumes: empty software names are not judged (the property's grammar does not settle them)
//# out: identifications longer than 13 bytes (software/comment states are uniform self-loops)
//# cover: banner answered
//# cover: banner not answered
#[kani::proof]
#[kani::unwind(20)]
fn c18_ssh_2_0_free6() {
    ssh_banner(b"SSH-2.0", 6, log::LevelFilter::Off)
}

//# harness: c18_ssh_1_99_free5
//# props: C18 C01
//# tier: thorough
//# timeout: 1200
//# encodes: proto::ssh::repl, proto::ssh::ssh_parse
//# bounds: identification = "SSH-1.99" (the dispatcher's signature) + 5 arbitrary bytes (version continuation, '-', software, SP, comment, lone CR, CR LF, bare LF, NUL, non-ASCII); log level Off
//# assumes: empty software names are not judged (the property's grammar does not settle them)
//# out: identifications longer than 13 bytes (software/comment states are uniform self-loops)
//# cover: banner answered
//# cover: banner not answered
#[kani::proof]
#[kani::unwind(20)]
fn c18_ssh_1_99_free5() {
    ssh_banner(b"SSH-1.99", 5, log::LevelFilter::Off)
}

//# harness: c18_ssh_2_0_free9
//# props: C18 C01
//# tier: extended
//# encodes: proto::ssh::repl, proto::ssh::ssh_parse
//# bounds: identification = "SSH-2.0" (the dispatcher's signature) + 9 arbitrary bytes (version continuation, '-', software, SP, comment, lone CR, CR LF, bare LF, NUL, non-ASCII); log level Off
//# assumes: empty software names are not judged (the property's grammar does not settle them)
//# out: identifications longer than 16 bytes (software/comment states are uniform self-loops)
//# cover: banner answered
//# cover: banner not answered
#[kani::proof]
#[kani::unwind(20)]
fn c18_ssh_2_0_free9() {
    ssh_banner(b"SSH-2.0", 9, log::LevelFilter::Off)
}

//# harness: c01_ssh_2_0_warn
//# props: C01 C18
//# tier: thorough
//# encodes: proto::ssh::repl, proto::ssh::ssh_parse
//# bounds: identification = "SSH-2.0" (the dispatcher's signature) + 5 arbitrary bytes (version continuation, '-', software, SP, comment, lone CR, CR LF, bare LF, NUL, non-ASCII); log level Warn
//# assumes: empty software names are not judged (the property's grammar does not settle them)
//# out: identifications longer than 12 bytes (software/comment states are uniform self-loops)
//# cover: banner answered
//# cover: banner not answered
#[kani::proof]
#[kani::stub(::log::__private_api::loc, crate::verif_util::log_loc_stub)]
#[kani::unwind(20)]
fn c01_ssh_2_0_warn() {
    ssh_banner(b"SSH-2.0", 5, log::LevelFilter::Warn)
}

//# harness: c18_ssh_2_0_free4
//# props: C18 C01 C19
//# tier: quick
//# encodes: proto::ssh::repl, proto::ssh::ssh_parse
//# bounds: identification = "SSH-2.0" (the dispatcher's signature) + 4 arbitrary bytes (version continuation, '-', software, SP, comment, lone CR, CR LF, bare LF, NUL, non-ASCII); log level Off
//# assumes: empty software names are not judged (the property's grammar does not settle them)
//# out: identifications longer than 11 bytes (software/comment states are uniform self-loops; 5-9 free bytes at the thorough tier)
//# cover: banner answered
//# cover: banner not answered
#[kani::proof]
#[kani::unwind(20)]
fn c18_ssh_2_0_free4() {
    ssh_banner(b"SSH-2.0", 4, log::LevelFilter::Off)
}

//# harness: c18_ssh_1_99_free4
//# props: C18 C01 C19
//# tier: quick
//# encodes: proto::ssh::repl, proto::ssh::ssh_parse
//# bounds: identification = "SSH-1.99" (the dispatcher's signature) + 4 arbitrary bytes (version continuation, '-', software, SP, comment, lone CR, CR LF, bare LF, NUL, non-ASCII); log level Off
//# assumes: empty software names are not judged (the property's grammar does not settle them)
//# out: identifications longer than 12 bytes (software/comment states are uniform self-loops; 5-9 free bytes at the thorough tier)
//# cover: banner answered
//# cover: banner not answered
#[kani::proof]
#[kani::unwind(20)]
fn c18_ssh_1_99_free4() {
    ssh_banner(b"SSH-1.99", 4, log::LevelFilter::Off)
}
