//@ target: src/proto/ssh.rs
//@ mod: verif_ssh
// The real SSH banner parser/responder `ssh::repl` (C18, C01).
use crate::client::ClientInfo;
use crate::verif_util::*;
use crate::Masscanned;
use pnet::util::MacAddr;

/// Reference acceptor for  SSH-<digits and dots>-<software>[ SP comment] CR LF  on a buffer
/// that starts with "SSH-".  Some(true)/Some(false) = must / must not be answered;
/// None = the property's wording does not settle it (empty software name).
fn ref_accept(d: &[u8]) -> Option<bool> {
    let n = d.len();
    let mut i = 4;
    loop {
        if i >= n {
            return Some(false);
        }
        let c = d[i];
        i += 1;
        if c == b'-' {
            break;
        }
        if !((c >= b'0' && c <= b'9') || c == b'.') {
            return Some(false);
        }
    }
    let sw = i;
    let mut j = sw;
    while j + 1 < n {
        if d[j] == b'\r' && d[j + 1] == b'\n' {
            if j == sw || d[sw] == b' ' {
                return None;
            }
            return Some(true);
        }
        j += 1;
    }
    Some(false)
}

/// prefix = the dispatcher's signature ("SSH-2.0" / "SSH-1.99"), followed by `free`
/// arbitrary bytes
fn ssh_banner(prefix: &[u8], free: usize, level: log::LevelFilter) {
    log::set_max_level(level);
    let tail: [u8; 9] = kani::any();
    let mut d = [0u8; 17];
    let mut i = 0;
    while i < prefix.len() {
        d[i] = prefix[i];
        i += 1;
    }
    let mut k = 0;
    while k < free {
        d[prefix.len() + k] = tail[k];
        k += 1;
    }
    let n = prefix.len() + free;
    let masscanned = ms_plain([0, 0], MacAddr::new(0, 1, 2, 3, 4, 5));
    let ci = ClientInfo::new();
    let r = repl(&d[..n], &masscanned, &ci, None);
    let want = ref_accept(&d[..n]);
    match r {
        Some(v) => {
            assert!(want != Some(false), "C18: unterminated or malformed SSH identification answered");
            let exp = b"SSH-2.0-1\r\n";
            assert!(v.len() == exp.len(), "C18: SSH reply is not exactly SSH-2.0-1 CR LF");
            let mut q = 0;
            while q < exp.len() {
                assert!(v[q] == exp[q], "C18: SSH reply is not exactly SSH-2.0-1 CR LF");
                q += 1;
            }
            kani::cover!(true, "banner answered");
            kani::cover!(want == Some(true) && tail[1] == b'\r' && tail[2] != b'\n', "lone CR inside software accepted");
        }
        None => {
            assert!(want != Some(true), "C18: well-formed SSH identification not answered");
            kani::cover!(true, "banner not answered");
            kani::cover!(tail[free - 1] == b'\n' && tail[free - 2] != b'\r', "bare LF is not a terminator");
        }
    }
}

//# harness: c18_ssh_2_0_free6
//# props: C18 C01 C19
//# tier: thorough
//# timeout: 1200
//# encodes: proto::ssh::repl, proto::ssh::ssh_parse
//# bounds: identification = "SSH-2.0" (the dispatcher's signature) + 6 arbitrary bytes (version continuation, '-', software, SP, comment, lone CR, CR LF, bare LF, NUL, non-ASCII); log level Off
//# assumes: empty software names are not judged (the property's grammar does not settle them)
//# out: identifications longer than 13 bytes (software/comment states are uniform self-loops)
//# cover: banner answered
//# cover: banner not answered
#[kani::proof]
#[kani::unwind(20)]
fn c18_ssh_2_0_free6() {
    ssh_banner(b"SSH-2.0", 6, log::LevelFilter::Off)
}

//# harness: c18_ssh_1_99_free5
//# props: C18 C01
//# tier: thorough
//# timeout: 1200
//# encodes: proto::ssh::repl, proto::ssh::ssh_parse
//# bounds: identification = "SSH-1.99" (the dispatcher's signature) + 5 arbitrary bytes (version continuation, '-', software, SP, comment, lone CR, CR LF, bare LF, NUL, non-ASCII); log level Off
//# assumes: empty software names are not judged (the property's grammar does not settle them)
//# out: identifications longer than 13 bytes (software/comment states are uniform self-loops)
//# cover: banner answered
//# cover: banner not answered
#[kani::proof]
#[kani::unwind(20)]
fn c18_ssh_1_99_free5() {
    ssh_banner(b"SSH-1.99", 5, log::LevelFilter::Off)
}

//# harness: c18_ssh_2_0_free9
//# props: C18 C01
//# tier: extended
//# encodes: proto::ssh::repl, proto::ssh::ssh_parse
//# bounds: identification = "SSH-2.0" (the dispatcher's signature) + 9 arbitrary bytes (version continuation, '-', software, SP, comment, lone CR, CR LF, bare LF, NUL, non-ASCII); log level Off
//# assumes: empty software names are not judged (the property's grammar does not settle them)
//# out: identifications longer than 16 bytes (software/comment states are uniform self-loops)
//# cover: banner answered
//# cover: banner not answered
#[kani::proof]
#[kani::unwind(20)]
fn c18_ssh_2_0_free9() {
    ssh_banner(b"SSH-2.0", 9, log::LevelFilter::Off)
}

//# harness: c01_ssh_2_0_warn
//# props: C01 C18
//# tier: extended
//# encodes: proto::ssh::repl, proto::ssh::ssh_parse
//# bounds: identification = "SSH-2.0" (the dispatcher's signature) + 5 arbitrary bytes (version continuation, '-', software, SP, comment, lone CR, CR LF, bare LF, NUL, non-ASCII); log level Warn
//# assumes: empty software names are not judged (the property's grammar does not settle them)
//# out: identifications longer than 12 bytes (software/comment states are uniform self-loops)
//# cover: banner answered
//# cover: banner not answered
#[kani::proof]
#[kani::stub(::log::__private_api::loc, crate::verif_util::log_loc_stub)]
#[kani::unwind(20)]
fn c01_ssh_2_0_warn() {
    ssh_banner(b"SSH-2.0", 5, log::LevelFilter::Warn)
}

//# harness: c18_ssh_2_0_free4
//# props: C18 C01 C19
//# tier: thorough
//# encodes: proto::ssh::repl, proto::ssh::ssh_parse
//# bounds: identification = "SSH-2.0" (the dispatcher's signature) + 4 arbitrary bytes (version continuation, '-', software, SP, comment, lone CR, CR LF, bare LF, NUL, non-ASCII); log level Off
//# assumes: empty software names are not judged (the property's grammar does not settle them)
//# out: identifications longer than 11 bytes (software/comment states are uniform self-loops; 5-9 free bytes at the thorough tier)
//# cover: banner answered
//# cover: banner not answered
#[kani::proof]
#[kani::unwind(20)]
fn c18_ssh_2_0_free4() {
    ssh_banner(b"SSH-2.0", 4, log::LevelFilter::Off)
}

//# harness: c18_ssh_1_99_free4
//# props: C18 C01 C19
//# tier: thorough
//# encodes: proto::ssh::repl, proto::ssh::ssh_parse
//# bounds: identification = "SSH-1.99" (the dispatcher's signature) + 4 arbitrary bytes (version continuation, '-', software, SP, comment, lone CR, CR LF, bare LF, NUL, non-ASCII); log level Off
//# assumes: empty software names are not judged (the property's grammar does not settle them)
//# out: identifications longer than 12 bytes (software/comment states are uniform self-loops; 5-9 free bytes at the thorough tier)
//# cover: banner answered
//# cover: banner not answered
#[kani::proof]
#[kani::unwind(20)]
fn c18_ssh_1_99_free4() {
    ssh_banner(b"SSH-1.99", 4, log::LevelFilter::Off)
}

// ------------------------------------------------------------------------------------------
// One-byte transition lemmas of the banner parser (cheap, replayable): concrete control state,
// one arbitrary byte, compared with the transition function of the identification grammar.
// The "CR seen" state is entered through a concrete CR so that the parser never starts a chunk
// in it (ssh::repl always parses a whole payload from a fresh state).
// ------------------------------------------------------------------------------------------
fn ref_ssh_step(st: usize, prev: usize, b: u8) -> (usize, usize) {
    match st {
        SSH_STATE_S1 => (if b == b'S' { SSH_STATE_S2 } else { SSH_STATE_FAIL }, prev),
        SSH_STATE_S2 => (if b == b'S' { SSH_STATE_H } else { SSH_STATE_FAIL }, prev),
        SSH_STATE_H => (if b == b'H' { SSH_STATE_DASH } else { SSH_STATE_FAIL }, prev),
        SSH_STATE_DASH => (if b == b'-' { SSH_STATE_VERSION } else { SSH_STATE_FAIL }, prev),
        SSH_STATE_VERSION => {
            if b == b'-' { (SSH_STATE_SOFTWARE, prev) } else if (b >= b'0' && b <= b'9') || b == b'.' { (SSH_STATE_VERSION, prev) } else { (SSH_STATE_FAIL, prev) }
        }
        SSH_STATE_SOFTWARE => {
            if b == b'\r' { (SSH_STATE_LF, SSH_STATE_SOFTWARE) } else if b == b' ' { (SSH_STATE_COMMENT, prev) } else { (SSH_STATE_SOFTWARE, prev) }
        }
        SSH_STATE_COMMENT => {
            if b == b'\r' { (SSH_STATE_LF, SSH_STATE_COMMENT) } else { (SSH_STATE_COMMENT, prev) }
        }
        SSH_STATE_LF => {
            if b == b'\n' {
                (SSH_STATE_EOB, prev)
            } else if prev == SSH_STATE_SOFTWARE || prev == SSH_STATE_COMMENT {
                // the CR was data: the byte is read again in the state the CR came from
                ref_ssh_step(prev, prev, b)
            } else {
                (SSH_STATE_FAIL, prev)
            }
        }
        SSH_STATE_EOB => (SSH_STATE_EOB, prev),
        _ => (SSH_STATE_FAIL, prev),
    }
}

/// via_cr: 0 = step directly from `st`; 1 = first feed a concrete CR from `st` (SOFTWARE or
/// COMMENT), then the arbitrary byte meets the "CR seen" state
fn ssh_step(st: usize, via_cr: bool) {
    let b: u8 = kani::any();
    let mut p = ProtocolState::new();
    p.state = st;
    let (mut rs, mut rp) = (st, SSH_STATE_START);
    if via_cr {
        let d = [b'\r', b];
        let (s1, p1) = ref_ssh_step(rs, rp, b'\r');
        let (s2, p2) = ref_ssh_step(s1, p1, b);
        rs = s2;
        rp = p2;
        ssh_parse(&mut p, &d);
    } else {
        let (s1, p1) = ref_ssh_step(rs, rp, b);
        rs = s1;
        rp = p1;
        ssh_parse(&mut p, &[b]);
    }
    assert!(p.state == rs, "C18: SSH banner parser transition differs from the identification grammar");
    if rs == SSH_STATE_LF {
        assert!(p.prev_state == rp, "C18: SSH banner parser forgot which field the CR was read in");
    }
    kani::cover!(p.state == SSH_STATE_FAIL, "step into FAIL");
    kani::cover!(p.state != SSH_STATE_FAIL, "step not failing");
    std::mem::forget(p);
}

/// concrete identifications through the real responder: exact reply / silence
fn ssh_concrete() {
    log::set_max_level(log::LevelFilter::Off);
    let masscanned = ms_plain([0, 0], MacAddr::new(0, 1, 2, 3, 4, 5));
    let ci = ClientInfo::new();
    let ok: [&[u8]; 4] = [b"SSH-2.0-x\r\n", b"SSH-1.99-a b\r\n", b"SSH-2.0-x\r\r\n", b"SSH-2.0-a\rb c\r\n"];
    let mut k = 0;
    while k < ok.len() {
        let r = repl(ok[k], &masscanned, &ci, None);
        assert!(r.is_some(), "C18: well-formed SSH identification not answered");
        let v = r.unwrap();
        let exp = b"SSH-2.0-1\r\n";
        assert!(v.len() == exp.len() && v[0] == b'S' && v[8] == b'1' && v[9] == b'\r' && v[10] == b'\n', "C18: SSH reply is not exactly SSH-2.0-1 CR LF");
        k += 1;
    }
    let bad: [&[u8]; 4] = [b"SSH-2.0-x\n", b"SSH-2.0-x\r", b"SSH-2.x-y\r\n", b"SSH-2.0-x y"];
    let mut k = 0;
    while k < bad.len() {
        assert!(repl(bad[k], &masscanned, &ci, None).is_none(), "C18: unterminated or malformed SSH identification answered");
        k += 1;
    }
    kani::cover!(true, "concrete identifications handled");
}

//# harness: c18_ssh_step_s1
//# props: C18 C01@thorough
//# tier: thorough
//# encodes: proto::ssh::ssh_parse
//# bounds: control state SSH_STATE_S1 (concrete), one arbitrary byte (256 values)
//# note: the step lemmas give, by induction on the banner length, acceptance = the identification grammar for banners of any length
//# cover: step into FAIL
#[kani::proof]
#[kani::unwind(8)]
fn c18_ssh_step_s1() {
    ssh_step(SSH_STATE_S1, false)
}

//# harness: c18_ssh_step_dash
//# props: C18 C01@thorough
//# tier: quick
//# encodes: proto::ssh::ssh_parse
//# bounds: control state SSH_STATE_DASH (concrete), one arbitrary byte (256 values)
//# note: the step lemmas give, by induction on the banner length, acceptance = the identification grammar for banners of any length
//# cover: step into FAIL
#[kani::proof]
#[kani::unwind(8)]
fn c18_ssh_step_dash() {
    ssh_step(SSH_STATE_DASH, false)
}

//# harness: c18_ssh_step_version
//# props: C18 C01@thorough
//# tier: quick
//# encodes: proto::ssh::ssh_parse
//# bounds: control state SSH_STATE_VERSION (concrete), one arbitrary byte (256 values)
//# note: the step lemmas give, by induction on the banner length, acceptance = the identification grammar for banners of any length
//# cover: step into FAIL
#[kani::proof]
#[kani::unwind(8)]
fn c18_ssh_step_version() {
    ssh_step(SSH_STATE_VERSION, false)
}

//# harness: c18_ssh_step_software
//# props: C18 C01@thorough
//# tier: quick
//# encodes: proto::ssh::ssh_parse
//# bounds: control state SSH_STATE_SOFTWARE (concrete), one arbitrary byte (256 values)
//# note: the step lemmas give, by induction on the banner length, acceptance = the identification grammar for banners of any length
//# cover: step not failing
#[kani::proof]
#[kani::unwind(8)]
fn c18_ssh_step_software() {
    ssh_step(SSH_STATE_SOFTWARE, false)
}

//# harness: c18_ssh_step_comment
//# props: C18 C01@thorough
//# tier: quick
//# encodes: proto::ssh::ssh_parse
//# bounds: control state SSH_STATE_COMMENT (concrete), one arbitrary byte (256 values)
//# note: the step lemmas give, by induction on the banner length, acceptance = the identification grammar for banners of any length
//# cover: step not failing
#[kani::proof]
#[kani::unwind(8)]
fn c18_ssh_step_comment() {
    ssh_step(SSH_STATE_COMMENT, false)
}

//# harness: c18_ssh_step_software_cr
//# props: C18 C01@thorough
//# tier: quick
//# encodes: proto::ssh::ssh_parse
//# bounds: control state SSH_STATE_SOFTWARE (concrete), reached the CR-seen state through a concrete CR, one arbitrary byte (256 values)
//# note: the step lemmas give, by induction on the banner length, acceptance = the identification grammar for banners of any length
//# cover: step not failing
#[kani::proof]
#[kani::unwind(8)]
fn c18_ssh_step_software_cr() {
    ssh_step(SSH_STATE_SOFTWARE, true)
}

//# harness: c18_ssh_step_comment_cr
//# props: C18 C01@thorough
//# tier: quick
//# encodes: proto::ssh::ssh_parse
//# bounds: control state SSH_STATE_COMMENT (concrete), reached the CR-seen state through a concrete CR, one arbitrary byte (256 values)
//# note: the step lemmas give, by induction on the banner length, acceptance = the identification grammar for banners of any length
//# cover: step not failing
#[kani::proof]
#[kani::unwind(8)]
fn c18_ssh_step_comment_cr() {
    ssh_step(SSH_STATE_COMMENT, true)
}

//# harness: c18_ssh_step_eob
//# props: C18 C01@thorough
//# tier: thorough
//# encodes: proto::ssh::ssh_parse
//# bounds: control state SSH_STATE_EOB (concrete), one arbitrary byte (256 values)
//# note: the step lemmas give, by induction on the banner length, acceptance = the identification grammar for banners of any length
//# cover: step not failing
#[kani::proof]
#[kani::unwind(8)]
fn c18_ssh_step_eob() {
    ssh_step(SSH_STATE_EOB, false)
}

//# harness: c18_ssh_step_s2
//# props: C18 C01@thorough
//# tier: thorough
//# encodes: proto::ssh::ssh_parse
//# bounds: control state SSH_STATE_S2 (concrete), one arbitrary byte (256 values)
//# note: the step lemmas give, by induction on the banner length, acceptance = the identification grammar for banners of any length
//# cover: step into FAIL
#[kani::proof]
#[kani::unwind(8)]
fn c18_ssh_step_s2() {
    ssh_step(SSH_STATE_S2, false)
}

//# harness: c18_ssh_step_h
//# props: C18 C01@thorough
//# tier: thorough
//# encodes: proto::ssh::ssh_parse
//# bounds: control state SSH_STATE_H (concrete), one arbitrary byte (256 values)
//# note: the step lemmas give, by induction on the banner length, acceptance = the identification grammar for banners of any length
//# cover: step into FAIL
#[kani::proof]
#[kani::unwind(8)]
fn c18_ssh_step_h() {
    ssh_step(SSH_STATE_H, false)
}

//# harness: c18_ssh_concrete
//# props: C18 C19
//# tier: quick
//# encodes: proto::ssh::repl, ssh_parse
//# bounds: eight concrete identifications (four well-formed incl. lone CR in software / comment and CR CR LF, four unterminated or malformed) through the real responder; reply compared with "SSH-2.0-1 CR LF"
//# cover: concrete identifications handled
#[kani::proof]
#[kani::unwind(20)]
fn c18_ssh_concrete() {
    ssh_concrete()
}
