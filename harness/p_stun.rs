//@ target: src/proto/stun.rs
//@ mod: verif_stun
// The real `proto::stun::repl` (C15, C12, C03 change-port, C01 malformed TLVs).
use crate::client::ClientInfo;
use crate::verif_util::*;
use crate::Masscanned;
use pnet::util::MacAddr;
use std::net::{IpAddr, Ipv4Addr, Ipv6Addr};

fn stun_ci(v6: bool) -> ClientInfo {
    let mut ci = ClientInfo::new();
    if v6 {
        ci.ip.src = Some(IpAddr::V6(any_ip6()));
        ci.ip.dst = Some(IpAddr::V6(any_ip6()));
    } else {
        ci.ip.src = Some(IpAddr::V4(any_ip4()));
        ci.ip.dst = Some(IpAddr::V4(any_ip4()));
    }
    ci.port.src = Some(kani::any());
    ci.port.dst = Some(kani::any());
    ci
}

/// checks a Binding Success Response against the request and the observed endpoint
fn check_response(v: &[u8], data: &[u8], ci0: &ClientInfo, v6: bool) {
    let alen = if v6 { 20 } else { 8 };
    assert!(v.len() >= 20 + 4 + alen, "C15: response too short to hold a MAPPED-ADDRESS attribute");
    assert!(v[0] == 0x01 && v[1] == 0x01, "C15: not a Binding Success Response");
    assert!(((v[2] as usize) << 8 | v[3] as usize) == v.len() - 20, "C15: message length is not the attribute bytes that follow");
    let i: usize = kani::any();
    kani::assume(i >= 4 && i < 20);
    assert!(v[i] == data[i], "C15: 128-bit transaction id (cookie + id) not echoed");
    assert!(v[20] == 0 && v[21] == 1, "C15: attribute is not MAPPED-ADDRESS");
    assert!(((v[22] as usize) << 8 | v[23] as usize) == alen, "C15: MAPPED-ADDRESS length");
    assert!(v[25] == if v6 { 2 } else { 1 }, "C15: MAPPED-ADDRESS family is not the request's IP version");
    let sp = ci0.port.src.unwrap();
    assert!(v[26] == (sp >> 8) as u8 && v[27] == sp as u8, "C15: MAPPED-ADDRESS port is not the request's source port");
    match ci0.ip.src.unwrap() {
        IpAddr::V4(a) => {
            let o = a.octets();
            let j: usize = kani::any();
            kani::assume(j < 4);
            assert!(v[28 + j] == o[j], "C15: MAPPED-ADDRESS is not the request's source address");
        }
        IpAddr::V6(a) => {
            let o = a.octets();
            let j: usize = kani::any();
            kani::assume(j < 16);
            assert!(v[28 + j] == o[j], "C15: MAPPED-ADDRESS is not the request's source address");
        }
    }
}

/// layout: 0 = no attribute, 1 = one CHANGE-REQUEST, 2 = generic(len 4) only,
/// 3 = generic(len 0) then CHANGE-REQUEST
fn stun_wellformed(v6: bool, layout: u8) {
    let rlen: usize = match layout {
        0 => 0,
        1 => 8,
        2 => 8,
        _ => 12,
    };
    let mut data: [u8; 32] = kani::any();
    // dispatch precondition (C10): every STUN signature starts 00 01; the class bit in byte 0
    // and all bits of byte 1 stay symbolic so that indications / responses / other methods
    // are covered
    kani::assume(data[0] & 0xfe == 0);
    data[2] = 0;
    data[3] = rlen as u8;
    let mut cr_port = false;
    match layout {
        1 => {
            data[20] = 0; data[21] = 3; data[22] = 0; data[23] = 4;
            cr_port = data[27] & 0x02 != 0;
        }
        2 => {
            // attribute type is concrete (it selects the parsing path): SOFTWARE (0x8022)
            data[20] = 0x80; data[21] = 0x22;
            data[22] = 0; data[23] = 4;
        }
        3 => {
            data[20] = 0x80; data[21] = 0x22;
            data[22] = 0; data[23] = 0;
            data[24] = 0; data[25] = 3; data[26] = 0; data[27] = 4;
            cr_port = data[31] & 0x02 != 0;
        }
        _ => {}
    }
    let masscanned = ms_plain([0, 0], MacAddr::new(0, 1, 2, 3, 4, 5));
    let mut ci = stun_ci(v6);
    let ci0 = ci;
    let r = repl(&data[..20 + rlen], &masscanned, &mut ci, None);
    let class = ((data[0] & 1) << 1) | ((data[1] & 0x10) >> 4);
    let method = (((data[0] & 0x3e) as u16) << 7) | (data[1] & 0xef) as u16;
    let is_binding_request = class == 0 && method == 1;
    assert!(ci.port.src == ci0.port.src && ci.ip == ci0.ip, "C03: STUN responder rewrote the client's address or source port");
    match r {
        Some(v) => {
            assert!(is_binding_request, "C15/C12: STUN message that is not a Binding Request answered");
            check_response(&v, &data, &ci0, v6);
            let want = if cr_port { ci0.port.dst.unwrap().wrapping_add(1) } else { ci0.port.dst.unwrap() };
            assert!(ci.port.dst == Some(want), "C15/C03: response port is not (destination port [+1 iff change-port requested]) mod 2^16");
            kani::cover!(true, "binding request answered");
            kani::cover!(cr_port && ci0.port.dst == Some(65535), "change-port wraps 65535 -> 0");
        }
        None => {
            assert!(!is_binding_request, "C15: Binding Request not answered");
            assert!(ci.port.dst == ci0.port.dst, "C03: port moved without a response");
            kani::cover!(class == 1, "C12 indication ignored");
            kani::cover!(class == 2 || class == 3, "C12 response ignored");
            kani::cover!(class == 0 && method != 1, "other method ignored");
        }
    }
}

/// malformed attribute regions (C01 / C15 "malformed TLVs"): the attribute TYPE is concrete
/// per instance (it selects the parsing path; a fully arbitrary region exhausts CBMC's memory
/// at 8 bytes - measured), the declared message length, the attribute LENGTH field and all
/// value bytes are symbolic.  kind 0: unknown attribute (0x8022) whose length may exceed the
/// region; 1: MAPPED-ADDRESS with any family byte and a value that may be too short;
/// 2: CHANGE-REQUEST in a 6-byte region (value truncated); 3: unknown attribute in a 5-byte region
fn stun_malformed(kind: u8, v6: bool) {
    let mut data: [u8; 32] = kani::any();
    data[0] = 0;
    data[1] = 1;
    let rlen: usize = match kind {
        0 => 8,
        1 => 8,
        2 => 6,
        _ => 5,
    };
    // declared message length = the region; the attribute LENGTH is a concrete lie per instance
    // (symbolic lengths turn every `data[i..].to_vec()` of the TLV walk into a symbolic-size
    // allocation: no result in 400 s); value bytes (family, flags, address) stay symbolic
    data[2] = 0;
    data[3] = rlen as u8;
    match kind {
        0 => { data[20] = 0x80; data[21] = 0x22; data[22] = 0; data[23] = 8; }
        3 => { data[20] = 0x80; data[21] = 0x22; data[22] = 0; data[23] = 1; }
        1 => { data[20] = 0x00; data[21] = 0x01; data[22] = 0; data[23] = 4; }
        _ => { data[20] = 0x00; data[21] = 0x03; data[22] = 0; data[23] = 2; }
    }
    let masscanned = ms_plain([0, 0], MacAddr::new(0, 1, 2, 3, 4, 5));
    let mut ci = stun_ci(v6);
    let ci0 = ci;
    let r = repl(&data[..20 + rlen], &masscanned, &mut ci, None);
    if let Some(v) = r {
        check_response(&v, &data, &ci0, v6);
        kani::cover!(true, "answered");
    }
    kani::cover!(true, "malformed region survived");
}

//# harness: c15_stun_v4_empty
//# props: C15 C12 C03 C19 C01
//# tier: quick
//# encodes: proto::stun::repl
//# encodes: proto::stun::StunPacket::{new,get_attributes,set_length}, StunAttribute::from, Into<Vec<u8>> for StunPacket
//# bounds: 20-byte STUN header with the class bits, method bits 0..6, magic cookie / transaction id (128 bits) symbolic; attribute list = no attribute; source address (IPv4), source and destination port symbolic (incl. 65535)
//# assumes: byte 0 is 0x00 or 0x01 (method bits 7..11 zero): every STUN signature of the dispatcher starts 00 01 (C10)
//# out: attribute regions longer than 12 bytes (CBMC runs out of memory at 28); more than one CHANGE-REQUEST
//# cover: binding request answered
//# cover: C12 indication ignored
//# cover: C12 response ignored
//# cover: other method ignored
#[kani::proof]
#[kani::unwind(36)]
fn c15_stun_v4_empty() {
    stun_wellformed(false, 0)
}

//# harness: c15_stun_v4_cr
//# props: C15 C03 C01
//# tier: quick
//# encodes: proto::stun::repl
//# encodes: proto::stun::StunPacket::{new,get_attributes,set_length}, StunAttribute::from, Into<Vec<u8>> for StunPacket
//# bounds: 20-byte STUN header with the class bits, method bits 0..6, magic cookie / transaction id (128 bits) symbolic; attribute list = one CHANGE-REQUEST (flags symbolic); source address (IPv4), source and destination port symbolic (incl. 65535)
//# assumes: byte 0 is 0x00 or 0x01 (method bits 7..11 zero): every STUN signature of the dispatcher starts 00 01 (C10)
//# out: attribute regions longer than 12 bytes (CBMC runs out of memory at 28); more than one CHANGE-REQUEST
//# cover: binding request answered
//# cover: change-port wraps 65535 -> 0
#[kani::proof]
#[kani::unwind(36)]
fn c15_stun_v4_cr() {
    stun_wellformed(false, 1)
}

//# harness: c15_stun_v6_cr
//# props: C15 C03 C19
//# tier: quick
//# encodes: proto::stun::repl
//# encodes: proto::stun::StunPacket::{new,get_attributes,set_length}, StunAttribute::from, Into<Vec<u8>> for StunPacket
//# bounds: 20-byte STUN header with the class bits, method bits 0..6, magic cookie / transaction id (128 bits) symbolic; attribute list = one CHANGE-REQUEST (flags symbolic); source address (IPv6), source and destination port symbolic (incl. 65535)
//# assumes: byte 0 is 0x00 or 0x01 (method bits 7..11 zero): every STUN signature of the dispatcher starts 00 01 (C10)
//# out: attribute regions longer than 12 bytes (CBMC runs out of memory at 28); more than one CHANGE-REQUEST
//# cover: binding request answered
#[kani::proof]
#[kani::unwind(36)]
fn c15_stun_v6_cr() {
    stun_wellformed(true, 1)
}

//# harness: c15_stun_v6_empty
//# props: C15 C12
//# tier: thorough
//# encodes: proto::stun::repl
//# encodes: proto::stun::StunPacket::{new,get_attributes,set_length}, StunAttribute::from, Into<Vec<u8>> for StunPacket
//# bounds: 20-byte STUN header with the class bits, method bits 0..6, magic cookie / transaction id (128 bits) symbolic; attribute list = no attribute; source address (IPv6), source and destination port symbolic (incl. 65535)
//# assumes: byte 0 is 0x00 or 0x01 (method bits 7..11 zero): every STUN signature of the dispatcher starts 00 01 (C10)
//# out: attribute regions longer than 12 bytes (CBMC runs out of memory at 28); more than one CHANGE-REQUEST
//# cover: binding request answered
#[kani::proof]
#[kani::unwind(36)]
fn c15_stun_v6_empty() {
    stun_wellformed(true, 0)
}

//# harness: c15_stun_v4_generic
//# props: C15
//# tier: thorough
//# encodes: proto::stun::repl
//# encodes: proto::stun::StunPacket::{new,get_attributes,set_length}, StunAttribute::from, Into<Vec<u8>> for StunPacket
//# bounds: 20-byte STUN header with the class bits, method bits 0..6, magic cookie / transaction id (128 bits) symbolic; attribute list = one unknown attribute with a 4-byte value; source address (IPv4), source and destination port symbolic (incl. 65535)
//# assumes: byte 0 is 0x00 or 0x01 (method bits 7..11 zero): every STUN signature of the dispatcher starts 00 01 (C10)
//# out: attribute regions longer than 12 bytes (CBMC runs out of memory at 28); more than one CHANGE-REQUEST
//# cover: binding request answered
#[kani::proof]
#[kani::unwind(36)]
fn c15_stun_v4_generic() {
    stun_wellformed(false, 2)
}

//# harness: c15_stun_v4_generic_cr
//# props: C15 C03
//# tier: thorough
//# encodes: proto::stun::repl
//# encodes: proto::stun::StunPacket::{new,get_attributes,set_length}, StunAttribute::from, Into<Vec<u8>> for StunPacket
//# bounds: 20-byte STUN header with the class bits, method bits 0..6, magic cookie / transaction id (128 bits) symbolic; attribute list = an empty unknown attribute followed by a CHANGE-REQUEST; source address (IPv4), source and destination port symbolic (incl. 65535)
//# assumes: byte 0 is 0x00 or 0x01 (method bits 7..11 zero): every STUN signature of the dispatcher starts 00 01 (C10)
//# out: attribute regions longer than 12 bytes (CBMC runs out of memory at 28); more than one CHANGE-REQUEST
//# cover: binding request answered
#[kani::proof]
#[kani::unwind(36)]
fn c15_stun_v4_generic_cr() {
    stun_wellformed(false, 3)
}





//# harness: c01_stun_tlv_unknown_8
//# props: C01 C15
//# tier: quick
//# encodes: proto::stun::repl, StunPacket::new, StunPacket::get_attributes, StunAttribute::from (TLV walk)
//# bounds: Binding Request header (00 01) with symbolic transaction id, followed by an 8-byte region holding an unknown attribute (type 0x8022) that declares 8 value bytes (4 present); value bytes symbolic
//# out: attribute regions longer than 8 bytes; regions whose first attribute type is not the listed one
//# cover: malformed region survived
#[kani::proof]
#[kani::unwind(36)]
fn c01_stun_tlv_unknown_8() {
    stun_malformed(0, false)
}

//# harness: c01_stun_tlv_mapped_8
//# props: C01 C15
//# tier: quick
//# encodes: proto::stun::repl, StunPacket::new, StunPacket::get_attributes, StunAttribute::from (TLV walk)
//# bounds: Binding Request header (00 01) with symbolic transaction id, followed by an 8-byte region holding a MAPPED-ADDRESS attribute with a 4-byte value (any family byte: the address is missing); value bytes symbolic
//# out: attribute regions longer than 8 bytes; regions whose first attribute type is not the listed one
//# cover: malformed region survived
#[kani::proof]
#[kani::unwind(36)]
fn c01_stun_tlv_mapped_8() {
    stun_malformed(1, false)
}

//# harness: c01_stun_tlv_change_6
//# props: C01 C15
//# tier: quick
//# encodes: proto::stun::repl, StunPacket::new, StunPacket::get_attributes, StunAttribute::from (TLV walk)
//# bounds: Binding Request header (00 01) with symbolic transaction id, followed by a 6-byte region holding a CHANGE-REQUEST attribute with a 2-byte value (flags word truncated); value bytes symbolic
//# out: attribute regions longer than 8 bytes; regions whose first attribute type is not the listed one
//# cover: malformed region survived
#[kani::proof]
#[kani::unwind(36)]
fn c01_stun_tlv_change_6() {
    stun_malformed(2, false)
}

//# harness: c01_stun_tlv_unknown_5
//# props: C01 C15
//# tier: thorough
//# encodes: proto::stun::repl, StunPacket::new, StunPacket::get_attributes, StunAttribute::from (TLV walk)
//# bounds: Binding Request header (00 01) with symbolic transaction id, followed by a 5-byte region holding an unknown attribute with a 1-byte value; value bytes symbolic
//# out: attribute regions longer than 8 bytes; regions whose first attribute type is not the listed one
//# cover: malformed region survived
#[kani::proof]
#[kani::unwind(36)]
fn c01_stun_tlv_unknown_5() {
    stun_malformed(3, true)
}
