//@ target: src/synackcookie/mod.rs
//@ mod: verif_cookie
// The real `synackcookie::generate` (SipHash-2-4 from the siphasher crate, compiled into the
// model): the cookie is a function of exactly (src ip, dst ip, src port, dst port, key).
use crate::client::{ClientInfo, ClientInfoSrcDst};
use crate::verif_util::*;
use pnet::packet::ip::IpNextHeaderProtocol;
use std::net::{IpAddr, Ipv4Addr, Ipv6Addr};

fn noninterference(v6: bool) {
    let key: [u64; 2] = [kani::any(), kani::any()];
    let (s, d) = if v6 {
        (IpAddr::V6(any_ip6()), IpAddr::V6(any_ip6()))
    } else {
        (IpAddr::V4(any_ip4()), IpAddr::V4(any_ip4()))
    };
    let sp: u16 = kani::any();
    let dp: u16 = kani::any();
    let mut a = ClientInfo::new();
    a.ip.src = Some(s);
    a.ip.dst = Some(d);
    a.port.src = Some(sp);
    a.port.dst = Some(dp);
    let mut b = a;
    // everything that is NOT part of the documented input differs arbitrarily
    if kani::any() {
        a.mac.src = Some(any_mac());
    }
    if kani::any() {
        a.mac.dst = Some(any_mac());
    }
    if kani::any() {
        b.mac.src = Some(any_mac());
    }
    if kani::any() {
        b.mac.dst = Some(any_mac());
    }
    if kani::any() {
        a.transport = Some(IpNextHeaderProtocol::new(kani::any()));
    }
    if kani::any() {
        b.transport = Some(IpNextHeaderProtocol::new(kani::any()));
    }
    if kani::any() {
        a.cookie = Some(kani::any());
    }
    if kani::any() {
        b.cookie = Some(kani::any());
    }
    let ca = generate(&a, &key);
    let cb = generate(&b, &key);
    match (ca, cb) {
        (Ok(x), Ok(y)) => {
            assert!(x == y, "C06: cookie depends on something besides the 4-tuple and the key");
            kani::cover!(true, "two cookies compared");
        }
        _ => assert!(false, "C06: no cookie for a complete 4-tuple"),
    }
}

//# harness: c06_cookie_noninterference_v4
//# props: C06
//# tier: quick
//# encodes: synackcookie::generate
//# encodes: siphasher::sip::SipHasher24 (write_u32/write_u16/finish, compiled into the model)
//# bounds: key 2x64 bit, IPv4 addresses, ports: full width; MAC addresses, transport protocol, stored cookie: arbitrary and different between the two runs
//# out: the 'changes with probability 1 - 2^-32' statement is probabilistic; sensitivity is decided on fixed pairs by c06_cookie_sensitivity
//# cover: two cookies compared
#[kani::proof]
#[kani::unwind(10)]
fn c06_cookie_noninterference_v4() {
    noninterference(false)
}

//# harness: c06_cookie_noninterference_v6
//# props: C06
//# tier: quick
//# encodes: synackcookie::generate
//# encodes: siphasher::sip::SipHasher24 (write_u128/write_u16/finish)
//# bounds: as c06_cookie_noninterference_v4 over IPv6 addresses
//# cover: two cookies compared
#[kani::proof]
#[kani::unwind(10)]
fn c06_cookie_noninterference_v6() {
    noninterference(true)
}

fn cookie(s: IpAddr, d: IpAddr, sp: u16, dp: u16, key: [u64; 2]) -> u32 {
    let mut a = ClientInfo::new();
    a.ip.src = Some(s);
    a.ip.dst = Some(d);
    a.port.src = Some(sp);
    a.port.dst = Some(dp);
    generate(&a, &key).unwrap()
}

//# harness: c06_cookie_sensitivity
//# props: C06
//# tier: quick
//# encodes: synackcookie::generate
//# bounds: fixed base inputs (two bases per IP version); each of the five inputs (src ip, dst ip, src port, dst port, each key word) changed in one bit in turn: the cookie must change.  For a keyed hash each comparison fails with probability 2^-32; 24 comparisons.
//# note: concrete inputs - CBMC constant-propagates the real code; this guards against an input being ignored, which the universally quantified harnesses cannot express
//# cover: all inputs matter
#[kani::proof]
#[kani::unwind(10)]
fn c06_cookie_sensitivity() {
    let k = [0x0706050403020100u64, 0x0f0e0d0c0b0a0908u64];
    let s4 = IpAddr::V4(Ipv4Addr::new(192, 0, 2, 7));
    let d4 = IpAddr::V4(Ipv4Addr::new(198, 51, 100, 9));
    let base = cookie(s4, d4, 40000, 80, k);
    assert!(base != cookie(IpAddr::V4(Ipv4Addr::new(192, 0, 2, 6)), d4, 40000, 80, k), "C06: cookie ignores the source address");
    assert!(base != cookie(IpAddr::V4(Ipv4Addr::new(64, 0, 2, 7)), d4, 40000, 80, k), "C06: cookie ignores the source address (high byte)");
    assert!(base != cookie(s4, IpAddr::V4(Ipv4Addr::new(198, 51, 100, 8)), 40000, 80, k), "C06: cookie ignores the destination address");
    assert!(base != cookie(s4, IpAddr::V4(Ipv4Addr::new(70, 51, 100, 9)), 40000, 80, k), "C06: cookie ignores the destination address (high byte)");
    assert!(base != cookie(s4, d4, 40001, 80, k), "C06: cookie ignores the source port");
    assert!(base != cookie(s4, d4, 40000 ^ 0x8000, 80, k), "C06: cookie ignores the source port (high bit)");
    assert!(base != cookie(s4, d4, 40000, 81, k), "C06: cookie ignores the destination port");
    assert!(base != cookie(s4, d4, 40000, 80 ^ 0x8000, k), "C06: cookie ignores the destination port (high bit)");
    assert!(base != cookie(s4, d4, 40000, 80, [k[0] ^ 1, k[1]]), "C06: cookie ignores key word 0");
    assert!(base != cookie(s4, d4, 40000, 80, [k[0], k[1] ^ (1 << 63)]), "C06: cookie ignores key word 1");
    assert!(base != cookie(d4, s4, 80, 40000, k), "C06: cookie is symmetric in the two directions");
    assert!(base != cookie(s4, d4, 80, 40000, k), "C06: cookie does not distinguish source and destination port");
    let s6 = IpAddr::V6(Ipv6Addr::new(0x2001, 0xdb8, 0, 0, 0, 0, 0, 1));
    let d6 = IpAddr::V6(Ipv6Addr::new(0x2001, 0xdb8, 0, 0, 0, 0, 0, 2));
    let b6 = cookie(s6, d6, 40000, 443, k);
    assert!(b6 != cookie(IpAddr::V6(Ipv6Addr::new(0x2001, 0xdb8, 0, 0, 0, 0, 0, 3)), d6, 40000, 443, k), "C06: cookie ignores the IPv6 source address");
    assert!(b6 != cookie(IpAddr::V6(Ipv6Addr::new(0x3001, 0xdb8, 0, 0, 0, 0, 0, 1)), d6, 40000, 443, k), "C06: cookie ignores the IPv6 source address (high bits)");
    assert!(b6 != cookie(s6, IpAddr::V6(Ipv6Addr::new(0x2001, 0xdb8, 0, 0, 0, 0, 0, 6)), 40000, 443, k), "C06: cookie ignores the IPv6 destination address");
    assert!(b6 != cookie(s6, IpAddr::V6(Ipv6Addr::new(0x2001, 0xdb8, 0, 1, 0, 0, 0, 2)), 40000, 443, k), "C06: cookie ignores the IPv6 destination address (middle)");
    assert!(b6 != cookie(s6, d6, 40001, 443, k), "C06: cookie ignores the source port (IPv6)");
    assert!(b6 != cookie(s6, d6, 40000, 442, k), "C06: cookie ignores the destination port (IPv6)");
    assert!(b6 != cookie(s6, d6, 40000, 443, [k[0] ^ 2, k[1]]), "C06: cookie ignores key word 0 (IPv6)");
    assert!(b6 != cookie(s6, d6, 40000, 443, [k[0], k[1] ^ 4]), "C06: cookie ignores key word 1 (IPv6)");
    kani::cover!(true, "all inputs matter");
}
