//@ target: src/proto/http.rs
//@ mod: verif_http
//@ needs: tables
// The real HTTP request parser `http_parse` and responder `http::repl` (C13, C11, C01).
use crate::client::ClientInfo;
use crate::proto::{ProtocolState as GenericProtocolState, TCPControlBlock};
use crate::verif_util::*;
use crate::Masscanned;
use pnet::util::MacAddr;

/// Reference transition function of the request grammar of C13 for the states after the
/// method:  SP target SP "HTTP/" d* "." d* CR* LF ( name ":" value CR* LF | CR )* LF
fn ref_step(st: usize, b: u8) -> usize {
    match st {
        HTTP_STATE_SPACE => {
            if b == b' ' { HTTP_STATE_URI } else { HTTP_STATE_FAIL }
        }
        HTTP_STATE_URI => {
            if b == b' ' { HTTP_STATE_H } else { HTTP_STATE_URI }
        }
        HTTP_STATE_H => if b == b'H' { HTTP_STATE_T1 } else { HTTP_STATE_FAIL },
        HTTP_STATE_T1 => if b == b'T' { HTTP_STATE_T2 } else { HTTP_STATE_FAIL },
        HTTP_STATE_T2 => if b == b'T' { HTTP_STATE_P } else { HTTP_STATE_FAIL },
        HTTP_STATE_P => if b == b'P' { HTTP_STATE_SLASH } else { HTTP_STATE_FAIL },
        HTTP_STATE_SLASH => if b == b'/' { HTTP_STATE_VERSION_MAJ } else { HTTP_STATE_FAIL },
        HTTP_STATE_VERSION_MAJ => {
            if b == b'.' { HTTP_STATE_VERSION_MIN } else if b >= b'0' && b <= b'9' { HTTP_STATE_VERSION_MAJ } else { HTTP_STATE_FAIL }
        }
        HTTP_STATE_VERSION_MIN => {
            if b == b'\r' { HTTP_STATE_VERSION_MIN } else if b == b'\n' { HTTP_STATE_FIELD_START } else if b >= b'0' && b <= b'9' { HTTP_STATE_VERSION_MIN } else { HTTP_STATE_FAIL }
        }
        HTTP_STATE_FIELD_START => {
            if b == b'\r' { HTTP_STATE_FIELD_START } else if b == b'\n' { HTTP_STATE_CONTENT } else { HTTP_STATE_FIELD_NAME }
        }
        HTTP_STATE_FIELD_NAME => {
            if b == b'\r' || b == b'\n' { HTTP_STATE_FAIL } else if b == b':' { HTTP_STATE_FIELD_VALUE } else { HTTP_STATE_FIELD_NAME }
        }
        HTTP_STATE_FIELD_VALUE => {
            if b == b'\n' { HTTP_STATE_FIELD_START } else { HTTP_STATE_FIELD_VALUE }
        }
        HTTP_STATE_CONTENT => HTTP_STATE_CONTENT,
        _ => HTTP_STATE_FAIL,
    }
}

fn mk(st: usize) -> ProtocolState {
    let mut p = ProtocolState::new();
    p.state = st;
    p
}

/// one parser step from the concrete control state `st` on an arbitrary byte.  (A second byte
/// in the same harness makes the control state symbolic inside the parser loop and CBMC then
/// explores every state's arm incl. the matcher: out of memory - measured.  Segmentation
/// independence is therefore decided on concrete request streams cut at every position,
/// see http_stream_cuts, and - for any stream - follows from the parser keeping ALL its state
/// in ProtocolState between bytes, which the stream harness exercises at every cut.)
fn http_step(st: usize) {
    lazy_static::initialize(&HTTP_SMACK);
    let b: u8 = kani::any();
    let mut one = mk(st);
    http_parse(&mut one, &[b]);
    assert!(one.state == ref_step(st, b), "C13: HTTP parser transition differs from the request grammar");
    if st == HTTP_STATE_URI && b != b' ' {
        assert!(one.http_uri.len() == 1 && one.http_uri[0] == b, "C13: target byte not captured");
    }
    kani::cover!(one.state == HTTP_STATE_FAIL, "step into FAIL");
    kani::cover!(one.state != HTTP_STATE_FAIL, "step not failing");
    std::mem::forget(one);
}

/// parser-level segmentation independence on concrete streams: every stream is parsed whole
/// and cut in two at every position; the persisted parser state must be identical
fn http_stream_cuts(which: u8) {
    lazy_static::initialize(&HTTP_SMACK);
    let streams: [&[u8]; 4] = [
        b"GET / HTTP/1.1\r\n\r\n",
        b"POST /a HTTP/1.0\nH: v\r\n\r\n",
        b"HEAD /x HTTP/1.1\r\nbad header\r\n\r\n",
        b"GET / HTTP/1.1\r\nA:b\r\n\r\r\n",
    ];
    let s = streams[which as usize];
    let n = s.len();
    let mut whole = ProtocolState::new();
    http_parse(&mut whole, s);
    let mut cut = 1;
    while cut < n {
        let mut p = ProtocolState::new();
        http_parse(&mut p, &s[..cut]);
        if whole.state == HTTP_STATE_CONTENT {
            assert!(p.state != HTTP_STATE_CONTENT || cut == n, "C11: request complete before its last byte");
        }
        http_parse(&mut p, &s[cut..]);
        assert!(p.state == whole.state && p.state_bis == whole.state_bis, "C11: HTTP parser state depends on segmentation");
        assert!(p.http_verb.len() == whole.http_verb.len() && p.http_uri.len() == whole.http_uri.len(), "C11: captured request line depends on segmentation");
        std::mem::forget(p);
        cut += 1;
    }
    kani::cover!(whole.state == HTTP_STATE_CONTENT, "complete request at every cut");
    kani::cover!(whole.state == HTTP_STATE_FAIL, "malformed request at every cut");
    std::mem::forget(whole);
}

const VERBS: [&[u8]; 9] = [b"GET", b"PUT", b"POST", b"HEAD", b"DELETE", b"CONNECT", b"OPTIONS", b"TRACE", b"PATCH"];

/// method recognition (the matcher-driven VERB state) on the nine methods, every cut
/// position inside "VERB /x" (concrete strings: the tables are the real compiled ones)
fn http_verbs(lo: usize, hi: usize) {
    lazy_static::initialize(&HTTP_SMACK);
    let mut k = lo;
    while k < hi {
        let v = VERBS[k];
        let mut buf = [0u8; 12];
        let n = v.len();
        let mut i = 0;
        while i < n {
            buf[i] = v[i];
            i += 1;
        }
        buf[n] = b' ';
        buf[n + 1] = b'/';
        buf[n + 2] = b'x';
        let total = n + 3;
        let mut whole = ProtocolState::new();
        http_parse(&mut whole, &buf[..total]);
        assert!(whole.state == HTTP_STATE_URI, "C13: supported method not recognised");
        assert!(whole.http_verb.len() == n && whole.http_uri.len() == 2, "C13: method / target not captured");
        let mut cut = 1;
        while cut < total {
            let mut s = ProtocolState::new();
            http_parse(&mut s, &buf[..cut]);
            assert!(s.state != HTTP_STATE_FAIL && s.state != HTTP_STATE_CONTENT, "C11: incomplete request line already decided");
            http_parse(&mut s, &buf[cut..total]);
            assert!(s.state == whole.state && s.http_verb.len() == whole.http_verb.len() && s.http_uri.len() == whole.http_uri.len(),
                "C11: method recognition depends on segmentation");
            std::mem::forget(s);
            cut += 1;
        }
        std::mem::forget(whole);
        k += 1;
    }
    kani::cover!(true, "all methods recognised at every cut");
}

/// unknown method: 4 arbitrary bytes that are not a prefix-compatible spelling of any
/// supported method never lead to an answer
fn http_unknown_method() {
    lazy_static::initialize(&HTTP_SMACK);
    let d: [u8; 3] = kani::any();
    // first letter is not the first letter (either case) of any supported method
    let c = d[0] | 0x20;
    kani::assume(c != b'g' && c != b'p' && c != b'h' && c != b'd' && c != b'c' && c != b'o' && c != b't');
    let mut s = ProtocolState::new();
    http_parse(&mut s, &d);
    assert!(s.state == HTTP_STATE_FAIL || s.state == HTTP_STATE_VERB, "C13: unknown method accepted");
    kani::cover!(s.state == HTTP_STATE_FAIL, "unknown method rejected");
    std::mem::forget(s);
}

fn ms() -> Masscanned<'static> {
    ms_plain([0, 0], MacAddr::new(0, 1, 2, 3, 4, 5))
}

/// whole request through the real responder in datagram mode: template
/// "GET /t HTTP/1.v\n[h:w\n]\n" with symbolic target, version digit, header bytes, and a
/// symbolic single-byte corruption position
fn http_request(with_header: bool, level: log::LevelFilter) {
    lazy_static::initialize(&HTTP_SMACK);
    log::set_max_level(level);
    let t: u8 = kani::any();
    let v: u8 = kani::any();
    let h: u8 = kani::any();
    let w: u8 = kani::any();
    let mut req = [0u8; 24];
    let base: &[u8] = if with_header { b"GET /t HTTP/1.v\nh:w\n\n" } else { b"GET /t HTTP/1.v\r\n\r\n" };
    let n = base.len();
    let mut i = 0;
    while i < n {
        req[i] = base[i];
        i += 1;
    }
    req[5] = t;
    req[14] = v;
    if with_header {
        req[16] = h;
        req[18] = w;
    }
    let ci = ClientInfo::new();
    let r = repl(&req[..n], &ms(), &ci, None);
    // reference: run the grammar automaton from the state after "GET"
    let mut st = HTTP_STATE_SPACE;
    let mut j = 3;
    while j < n {
        st = ref_step(st, req[j]);
        j += 1;
    }
    match r {
        Some(resp) => {
            assert!(st == HTTP_STATE_CONTENT, "C13: request that is malformed or not terminated answered");
            assert!(resp.len() > 12 && resp[0] == b'H', "C13: reply is not an HTTP response");
            kani::cover!(true, "complete request answered");
            kani::cover!(t >= 0x80, "non-ASCII target answered");
        }
        None => {
            assert!(st != HTTP_STATE_CONTENT, "C13: complete request not answered");
            kani::cover!(true, "malformed request ignored");
        }
    }
}

/// the 401 response itself (input-independent apart from the date): Content-Length equals
/// the number of body bytes, WWW-Authenticate present
fn http_response() {
    lazy_static::initialize(&HTTP_SMACK);
    let ci = ClientInfo::new();
    let r = repl(b"GET / HTTP/1.1\r\n\r\n", &ms(), &ci, None);
    let resp = match r {
        Some(x) => x,
        None => {
            assert!(false, "C13: complete request not answered");
            return;
        }
    };
    let n = resp.len();
    assert!(n > 16, "C13: empty response");
    let pre = b"HTTP/1.1 401";
    let mut i = 0;
    while i < pre.len() {
        assert!(resp[i] == pre[i], "C13: status line is not HTTP/1.1 401");
        i += 1;
    }
    // locate the empty line (LF LF or CRLF CRLF) and the headers of interest
    let mut body_start = 0;
    let mut clen: usize = 0;
    let mut have_clen = false;
    let mut have_auth = false;
    let mut line_start = 0;
    let mut k = 0;
    while k < n && body_start == 0 {
        if resp[k] == b'\n' {
            let mut e = k;
            if e > line_start && resp[e - 1] == b'\r' {
                e -= 1;
            }
            if e == line_start {
                body_start = k + 1;
            } else {
                if starts_with_ci(&resp[line_start..e], b"content-length:") {
                    let mut p = line_start + 15;
                    while p < e && resp[p] == b' ' {
                        p += 1;
                    }
                    have_clen = p < e;
                    while p < e && resp[p] >= b'0' && resp[p] <= b'9' {
                        clen = clen * 10 + (resp[p] - b'0') as usize;
                        p += 1;
                    }
                }
                if starts_with_ci(&resp[line_start..e], b"www-authenticate:") {
                    have_auth = true;
                }
            }
            line_start = k + 1;
        }
        k += 1;
    }
    assert!(body_start != 0, "C13: response headers not terminated by an empty line");
    assert!(have_auth, "C13: no WWW-Authenticate challenge");
    assert!(have_clen, "C13: no Content-Length");
    if crate::verif_known::C13_CONTENT_LENGTH_OFF_BY_ONE {
        kani::cover!(clen != n - body_start, "KF:c13.content_length_off_by_one");
    } else {
        assert!(clen == n - body_start, "C13: Content-Length differs from the number of body bytes sent");
    }
    kani::cover!(true, "response checked");
}

fn starts_with_ci(s: &[u8], p: &[u8]) -> bool {
    if s.len() < p.len() {
        return false;
    }
    let mut i = 0;
    while i < p.len() {
        if (s[i] | 0x20) != p[i] && s[i] != p[i] {
            return false;
        }
        i += 1;
    }
    true
}

/// fixed date for the response harness (the wall clock is outside the model)
pub fn rfc2822_stub<Tz: chrono::TimeZone>(_t: &chrono::DateTime<Tz>) -> String
where
    Tz::Offset: std::fmt::Display,
{
    String::from("Sat, 03 Oct 2026 00:00:00 +0000")
}
pub fn utc_now_stub() -> chrono::DateTime<chrono::Utc> {
    chrono::DateTime::<chrono::Utc>::from_timestamp(0, 0).unwrap()
}

//# harness: c13_http_step_space
//# props: C13 C01@thorough
//# tier: thorough
//# encodes: proto::http::http_parse
//# bounds: control state HTTP_STATE_SPACE (concrete), one arbitrary input byte (256 values); all other parser fields at their initial values
//# stubs: http_init -> constructor over the natively dumped real tables
//# note: the step lemmas for all 14 states give, by induction on the input length, acceptance = the grammar automaton for streams of any length once the method has been read
//# cover: step into FAIL
#[kani::proof]
#[kani::unwind(8)]
#[kani::stub(crate::proto::http::http_init, crate::proto::http::verif_http_init_stub)]
fn c13_http_step_space() {
    http_step(HTTP_STATE_SPACE)
}

//# harness: c13_http_step_uri
//# props: C13 C01@thorough
//# tier: quick
//# encodes: proto::http::http_parse
//# bounds: control state HTTP_STATE_URI (concrete), one arbitrary input byte (256 values); all other parser fields at their initial values
//# stubs: http_init -> constructor over the natively dumped real tables
//# note: the step lemmas for all 14 states give, by induction on the input length, acceptance = the grammar automaton for streams of any length once the method has been read
//# cover: step not failing
#[kani::proof]
#[kani::unwind(8)]
#[kani::stub(crate::proto::http::http_init, crate::proto::http::verif_http_init_stub)]
fn c13_http_step_uri() {
    http_step(HTTP_STATE_URI)
}

//# harness: c13_http_step_h
//# props: C13 C01@thorough
//# tier: thorough
//# encodes: proto::http::http_parse
//# bounds: control state HTTP_STATE_H (concrete), one arbitrary input byte (256 values); all other parser fields at their initial values
//# stubs: http_init -> constructor over the natively dumped real tables
//# note: the step lemmas for all 14 states give, by induction on the input length, acceptance = the grammar automaton for streams of any length once the method has been read
//# cover: step into FAIL
#[kani::proof]
#[kani::unwind(8)]
#[kani::stub(crate::proto::http::http_init, crate::proto::http::verif_http_init_stub)]
fn c13_http_step_h() {
    http_step(HTTP_STATE_H)
}

//# harness: c13_http_step_t1
//# props: C13 C01@thorough
//# tier: thorough
//# encodes: proto::http::http_parse
//# bounds: control state HTTP_STATE_T1 (concrete), one arbitrary input byte (256 values); all other parser fields at their initial values
//# stubs: http_init -> constructor over the natively dumped real tables
//# note: the step lemmas for all 14 states give, by induction on the input length, acceptance = the grammar automaton for streams of any length once the method has been read
//# cover: step into FAIL
#[kani::proof]
#[kani::unwind(8)]
#[kani::stub(crate::proto::http::http_init, crate::proto::http::verif_http_init_stub)]
fn c13_http_step_t1() {
    http_step(HTTP_STATE_T1)
}

//# harness: c13_http_step_t2
//# props: C13 C01@thorough
//# tier: thorough
//# encodes: proto::http::http_parse
//# bounds: control state HTTP_STATE_T2 (concrete), one arbitrary input byte (256 values); all other parser fields at their initial values
//# stubs: http_init -> constructor over the natively dumped real tables
//# note: the step lemmas for all 14 states give, by induction on the input length, acceptance = the grammar automaton for streams of any length once the method has been read
//# cover: step into FAIL
#[kani::proof]
#[kani::unwind(8)]
#[kani::stub(crate::proto::http::http_init, crate::proto::http::verif_http_init_stub)]
fn c13_http_step_t2() {
    http_step(HTTP_STATE_T2)
}

//# harness: c13_http_step_p
//# props: C13 C01@thorough
//# tier: thorough
//# encodes: proto::http::http_parse
//# bounds: control state HTTP_STATE_P (concrete), one arbitrary input byte (256 values); all other parser fields at their initial values
//# stubs: http_init -> constructor over the natively dumped real tables
//# note: the step lemmas for all 14 states give, by induction on the input length, acceptance = the grammar automaton for streams of any length once the method has been read
//# cover: step into FAIL
#[kani::proof]
#[kani::unwind(8)]
#[kani::stub(crate::proto::http::http_init, crate::proto::http::verif_http_init_stub)]
fn c13_http_step_p() {
    http_step(HTTP_STATE_P)
}

//# harness: c13_http_step_slash
//# props: C13 C01@thorough
//# tier: thorough
//# encodes: proto::http::http_parse
//# bounds: control state HTTP_STATE_SLASH (concrete), one arbitrary input byte (256 values); all other parser fields at their initial values
//# stubs: http_init -> constructor over the natively dumped real tables
//# note: the step lemmas for all 14 states give, by induction on the input length, acceptance = the grammar automaton for streams of any length once the method has been read
//# cover: step into FAIL
#[kani::proof]
#[kani::unwind(8)]
#[kani::stub(crate::proto::http::http_init, crate::proto::http::verif_http_init_stub)]
fn c13_http_step_slash() {
    http_step(HTTP_STATE_SLASH)
}

//# harness: c13_http_step_version_maj
//# props: C13 C01@thorough
//# tier: thorough
//# encodes: proto::http::http_parse
//# bounds: control state HTTP_STATE_VERSION_MAJ (concrete), one arbitrary input byte (256 values); all other parser fields at their initial values
//# stubs: http_init -> constructor over the natively dumped real tables
//# note: the step lemmas for all 14 states give, by induction on the input length, acceptance = the grammar automaton for streams of any length once the method has been read
//# cover: step into FAIL
#[kani::proof]
#[kani::unwind(8)]
#[kani::stub(crate::proto::http::http_init, crate::proto::http::verif_http_init_stub)]
fn c13_http_step_version_maj() {
    http_step(HTTP_STATE_VERSION_MAJ)
}

//# harness: c13_http_step_version_min
//# props: C13 C01@thorough
//# tier: quick
//# encodes: proto::http::http_parse
//# bounds: control state HTTP_STATE_VERSION_MIN (concrete), one arbitrary input byte (256 values); all other parser fields at their initial values
//# stubs: http_init -> constructor over the natively dumped real tables
//# note: the step lemmas for all 14 states give, by induction on the input length, acceptance = the grammar automaton for streams of any length once the method has been read
//# cover: step into FAIL
#[kani::proof]
#[kani::unwind(8)]
#[kani::stub(crate::proto::http::http_init, crate::proto::http::verif_http_init_stub)]
fn c13_http_step_version_min() {
    http_step(HTTP_STATE_VERSION_MIN)
}

//# harness: c13_http_step_field_start
//# props: C13 C01@thorough
//# tier: quick
//# encodes: proto::http::http_parse
//# bounds: control state HTTP_STATE_FIELD_START (concrete), one arbitrary input byte (256 values); all other parser fields at their initial values
//# stubs: http_init -> constructor over the natively dumped real tables
//# note: the step lemmas for all 14 states give, by induction on the input length, acceptance = the grammar automaton for streams of any length once the method has been read
//# cover: step not failing
#[kani::proof]
#[kani::unwind(8)]
#[kani::stub(crate::proto::http::http_init, crate::proto::http::verif_http_init_stub)]
fn c13_http_step_field_start() {
    http_step(HTTP_STATE_FIELD_START)
}

//# harness: c13_http_step_field_name
//# props: C13 C01@thorough
//# tier: quick
//# encodes: proto::http::http_parse
//# bounds: control state HTTP_STATE_FIELD_NAME (concrete), one arbitrary input byte (256 values); all other parser fields at their initial values
//# stubs: http_init -> constructor over the natively dumped real tables
//# note: the step lemmas for all 14 states give, by induction on the input length, acceptance = the grammar automaton for streams of any length once the method has been read
//# cover: step into FAIL
#[kani::proof]
#[kani::unwind(8)]
#[kani::stub(crate::proto::http::http_init, crate::proto::http::verif_http_init_stub)]
fn c13_http_step_field_name() {
    http_step(HTTP_STATE_FIELD_NAME)
}

//# harness: c13_http_step_field_value
//# props: C13 C01@thorough
//# tier: thorough
//# encodes: proto::http::http_parse
//# bounds: control state HTTP_STATE_FIELD_VALUE (concrete), one arbitrary input byte (256 values); all other parser fields at their initial values
//# stubs: http_init -> constructor over the natively dumped real tables
//# note: the step lemmas for all 14 states give, by induction on the input length, acceptance = the grammar automaton for streams of any length once the method has been read
//# cover: step not failing
#[kani::proof]
#[kani::unwind(8)]
#[kani::stub(crate::proto::http::http_init, crate::proto::http::verif_http_init_stub)]
fn c13_http_step_field_value() {
    http_step(HTTP_STATE_FIELD_VALUE)
}

//# harness: c13_http_step_content
//# props: C13 C01@thorough
//# tier: thorough
//# encodes: proto::http::http_parse
//# bounds: control state HTTP_STATE_CONTENT (concrete), one arbitrary input byte (256 values); all other parser fields at their initial values
//# stubs: http_init -> constructor over the natively dumped real tables
//# note: the step lemmas for all 14 states give, by induction on the input length, acceptance = the grammar automaton for streams of any length once the method has been read
//# cover: step not failing
#[kani::proof]
#[kani::unwind(8)]
#[kani::stub(crate::proto::http::http_init, crate::proto::http::verif_http_init_stub)]
fn c13_http_step_content() {
    http_step(HTTP_STATE_CONTENT)
}

//# harness: c13_http_step_fail
//# props: C13 C01@thorough
//# tier: thorough
//# encodes: proto::http::http_parse
//# bounds: control state HTTP_STATE_FAIL (concrete), one arbitrary input byte (256 values); all other parser fields at their initial values
//# stubs: http_init -> constructor over the natively dumped real tables
//# note: the step lemmas for all 14 states give, by induction on the input length, acceptance = the grammar automaton for streams of any length once the method has been read
//# cover: step into FAIL
#[kani::proof]
#[kani::unwind(8)]
#[kani::stub(crate::proto::http::http_init, crate::proto::http::verif_http_init_stub)]
fn c13_http_step_fail() {
    http_step(HTTP_STATE_FAIL)
}

//# harness: c13_http_verbs_a
//# props: C13 C11
//# tier: quick
//# encodes: proto::http::http_parse (matcher-driven VERB state)
//# encodes: smack::Smack::search_next on the real HTTP tables
//# bounds: methods 0..3 of [GET PUT POST HEAD DELETE CONNECT OPTIONS TRACE PATCH] followed by " /x": parsed whole and at every cut position (concrete strings)
//# stubs: http_init -> constructor over the natively dumped real tables
//# cover: all methods recognised at every cut
#[kani::proof]
#[kani::unwind(14)]
#[kani::stub(crate::proto::http::http_init, crate::proto::http::verif_http_init_stub)]
fn c13_http_verbs_a() {
    http_verbs(0, 3)
}

//# harness: c13_http_verbs_b
//# props: C13 C11
//# tier: thorough
//# encodes: proto::http::http_parse (matcher-driven VERB state)
//# encodes: smack::Smack::search_next on the real HTTP tables
//# bounds: methods 3..6 of [GET PUT POST HEAD DELETE CONNECT OPTIONS TRACE PATCH] followed by " /x": parsed whole and at every cut position (concrete strings)
//# stubs: http_init -> constructor over the natively dumped real tables
//# cover: all methods recognised at every cut
#[kani::proof]
#[kani::unwind(14)]
#[kani::stub(crate::proto::http::http_init, crate::proto::http::verif_http_init_stub)]
fn c13_http_verbs_b() {
    http_verbs(3, 6)
}

//# harness: c13_http_verbs_c
//# props: C13 C11
//# tier: thorough
//# encodes: proto::http::http_parse (matcher-driven VERB state)
//# encodes: smack::Smack::search_next on the real HTTP tables
//# bounds: methods 6..9 of [GET PUT POST HEAD DELETE CONNECT OPTIONS TRACE PATCH] followed by " /x": parsed whole and at every cut position (concrete strings)
//# stubs: http_init -> constructor over the natively dumped real tables
//# cover: all methods recognised at every cut
#[kani::proof]
#[kani::unwind(14)]
#[kani::stub(crate::proto::http::http_init, crate::proto::http::verif_http_init_stub)]
fn c13_http_verbs_c() {
    http_verbs(6, 9)
}

//# harness: c13_http_unknown_method
//# props: C13
//# tier: thorough
//# encodes: proto::http::http_parse (VERB state)
//# bounds: 3 arbitrary bytes whose first letter is not the initial of any supported method (either case)
//# stubs: http_init -> constructor over the natively dumped real tables
//# cover: unknown method rejected
#[kani::proof]
#[kani::unwind(8)]
#[kani::stub(crate::proto::http::http_init, crate::proto::http::verif_http_init_stub)]
fn c13_http_unknown_method() {
    http_unknown_method()
}




//# harness: c13_http_response
//# timeout: 1400
//# props: C13
//# tier: extended
//# encodes: proto::http::repl (response construction: format! of the 401 template)
//# bounds: request "GET / HTTP/1.1 CRLF CRLF" (concrete); the response is input-independent apart from the date
//# stubs: http_init -> real tables; chrono::Utc::now -> fixed instant
//# known: c13.content_length_off_by_one
//# cover: response checked
#[kani::proof]
#[kani::unwind(460)]
#[kani::stub(crate::proto::http::http_init, crate::proto::http::verif_http_init_stub)]
#[kani::stub(chrono::Utc::now, crate::verif_util::utc_now_stub)]
#[kani::stub(chrono::DateTime::to_rfc2822, rfc2822_stub)]
fn c13_http_response() {
    http_response()
}

//# harness: c11_http_stream_cuts_0
//# props: C11 C13
//# tier: quick
//# encodes: proto::http::http_parse incl. the matcher-driven method state on the real HTTP tables
//# bounds: concrete stream "GET / HTTP/1.1 CRLF CRLF" parsed whole and cut in two at every position (parser level, no response construction)
//# stubs: http_init -> real tables
//# cover: complete request at every cut
#[kani::proof]
#[kani::unwind(40)]
#[kani::stub(crate::proto::http::http_init, crate::proto::http::verif_http_init_stub)]
fn c11_http_stream_cuts_0() {
    http_stream_cuts(0)
}

//# harness: c11_http_stream_cuts_1
//# props: C11 C13
//# tier: thorough
//# encodes: proto::http::http_parse incl. the matcher-driven method state on the real HTTP tables
//# bounds: concrete stream "POST /a HTTP/1.0 LF H: v CRLF CRLF" parsed whole and cut in two at every position (parser level, no response construction)
//# stubs: http_init -> real tables
//# cover: complete request at every cut
#[kani::proof]
#[kani::unwind(40)]
#[kani::stub(crate::proto::http::http_init, crate::proto::http::verif_http_init_stub)]
fn c11_http_stream_cuts_1() {
    http_stream_cuts(1)
}

//# harness: c11_http_stream_cuts_2
//# props: C11 C13
//# tier: thorough
//# encodes: proto::http::http_parse incl. the matcher-driven method state on the real HTTP tables
//# bounds: concrete stream "HEAD /x HTTP/1.1 CRLF 'bad header' CRLF CRLF (malformed: no colon)" parsed whole and cut in two at every position (parser level, no response construction)
//# stubs: http_init -> real tables
//# cover: malformed request at every cut
#[kani::proof]
#[kani::unwind(40)]
#[kani::stub(crate::proto::http::http_init, crate::proto::http::verif_http_init_stub)]
fn c11_http_stream_cuts_2() {
    http_stream_cuts(2)
}

//# harness: c11_http_stream_cuts_3
//# props: C11 C13
//# tier: quick
//# encodes: proto::http::http_parse incl. the matcher-driven method state on the real HTTP tables
//# bounds: concrete stream "GET / HTTP/1.1 CRLF A:b CRLF CR CRLF" parsed whole and cut in two at every position (parser level, no response construction)
//# stubs: http_init -> real tables
//# cover: complete request at every cut
#[kani::proof]
#[kani::unwind(40)]
#[kani::stub(crate::proto::http::http_init, crate::proto::http::verif_http_init_stub)]
fn c11_http_stream_cuts_3() {
    http_stream_cuts(3)
}

/// fully concrete requests through the real responder at a given log level (symbolic request
/// bytes make the parser's control state symbolic and are out of reach - measured 1400 s
/// timeouts; the per-state step lemmas carry the universally quantified part).  Here:
/// evaluation of the warn! arguments for a target that is not valid UTF-8.
fn http_concrete(level: log::LevelFilter) {
    lazy_static::initialize(&HTTP_SMACK);
    log::set_max_level(level);
    let ci = ClientInfo::new();
    let r = repl(b"GET /\xff\xfe HTTP/1.1\r\n\r\n", &ms(), &ci, None);
    assert!(r.is_some(), "C13: complete request with a non-UTF-8 target not answered");
    let r2 = repl(b"GET / HTTP/1.1\r\nno colon\r\n\r\n", &ms(), &ci, None);
    assert!(r2.is_none(), "C13: request with a malformed header line answered");
    kani::cover!(true, "concrete requests handled");
}

//# harness: c01_http_nonutf8_warn
//# props: C01 C13
//# tier: quick
//# encodes: proto::http::repl incl. the argument expressions of warn! (log level Warn)
//# bounds: two concrete requests: "GET /<ff><fe> HTTP/1.1 CRLF CRLF" (target not valid UTF-8) and one with a colon-less header line; log level Warn
//# stubs: http_init -> real tables; chrono::Utc::now / to_rfc2822 -> fixed; alloc::fmt::format -> fixed text
//# cover: concrete requests handled
#[kani::proof]
#[kani::stub(::log::__private_api::loc, crate::verif_util::log_loc_stub)]
#[kani::unwind(40)]
#[kani::stub(crate::proto::http::http_init, crate::proto::http::verif_http_init_stub)]
#[kani::stub(chrono::Utc::now, crate::verif_util::utc_now_stub)]
#[kani::stub(chrono::DateTime::to_rfc2822, rfc2822_stub)]
#[kani::stub(alloc::fmt::format, crate::verif_util::fmt_format_stub)]
fn c01_http_nonutf8_warn() {
    http_concrete(log::LevelFilter::Warn)
}
