//@ target: src/layer_4/udp.rs
//@ mod: verif_udp
// The real `layer_4::udp::repl`: port mirroring (C03), hand-over of exactly the datagram
// payload (C19), no connection state (C08/C09), UDP length (C04).
use crate::client::ClientInfo;
use crate::verif_util::*;
use crate::{proto, Masscanned};
use pnet::packet::ip::IpNextHeaderProtocols;
use pnet::packet::udp::{MutableUdpPacket, UdpPacket};
use pnet::packet::Packet;
use pnet::util::MacAddr;
use std::net::{IpAddr, Ipv4Addr, Ipv6Addr};

fn udp_case(v6: bool, n: usize, rl: usize, nt: usize) {
    let buf: [u8; 12] = kani::any();
    let udp_req = UdpPacket::new(&buf[..n]).unwrap();
    let masscanned = ms_plain([kani::any(), kani::any()], MacAddr::new(0, 1, 2, 3, 4, 5));
    let mut ci = ClientInfo::new();
    if v6 {
        ci.ip.src = Some(IpAddr::V6(any_ip6()));
        ci.ip.dst = Some(IpAddr::V6(any_ip6()));
    } else {
        ci.ip.src = Some(IpAddr::V4(any_ip4()));
        ci.ip.dst = Some(IpAddr::V4(any_ip4()));
    }
    ci.transport = Some(IpNextHeaderProtocols::Udp);
    if nt >= 1 {
        proto::add_tcb(kani::any());
    }
    proto_rec().cfg_reply_len = rl;
    let q: u32 = kani::any();
    let before = proto::is_tcb_set(q);
    let r = repl(&udp_req, &masscanned, &mut ci);
    let rec = proto_rec();
    assert!(proto::is_tcb_set(q) == before, "C09: a UDP datagram changed the connection table");
    assert!(rec.calls == 1, "C19: application layer not consulted exactly once for a datagram");
    assert!(!rec.tcb_some, "C08: a UDP datagram was given a TCP control block");
    assert!(rec.data_len == n - 8, "C19: application layer did not get exactly the datagram payload");
    if n == 12 {
        assert!(
            rec.data[0] == buf[8] && rec.data[1] == buf[9] && rec.data[2] == buf[10] && rec.data[3] == buf[11],
            "C19: payload bytes altered before the application layer"
        );
    }
    match r {
        Some(p) => {
            assert!(rec.reply_len > 0, "C03: reply produced although the application layer stayed silent");
            let b = p.packet();
            assert!(b.len() == 8 + rec.reply_len, "C04: datagram is not header + application data");
            assert!(p.get_length() as usize == b.len(), "C04: UDP length field is not the actual length");
            assert!(b[8] == rec.reply[0] && b[8 + rec.reply_len - 1] == rec.reply[rec.reply_len - 1], "C03: application data altered");
            assert!(p.get_destination() == udp_req.get_source(), "C03: destination port is not the asker's source port");
            assert!(Some(p.get_source()) == ci.port.dst, "C03: source port is not the (possibly moved) contacted port");
            assert!(ci.port.src == Some(udp_req.get_source()), "C03: client source port rewritten");
            kani::cover!(true, "datagram answered");
        }
        None => {
            assert!(rec.reply_len == 0, "C03: application reply dropped by the UDP layer");
            kani::cover!(true, "datagram not answered");
        }
    }
}

//# harness: c03_udp_v4
//# props: C03 C04 C09 C19 C08 C01
//# tier: quick
//# encodes: layer_4::udp::repl
//# bounds: 8-byte UDP header fully symbolic (ports, lying length field, checksum) + 4 payload bytes; application reply None or 3 arbitrary bytes; IPv4; connection table with 1 entry
//# stubs: proto::repl -> recording contract stub: None or Some(3 bytes), may rewrite client_info.port.dst
//# out: longer datagrams / replies (length enters through payload().len(), concat and set_length only; replies above 65527 bytes would truncate the u16 length - no responder produces them)
//# cover: datagram answered
//# cover: datagram not answered
#[kani::proof]
#[kani::unwind(6)]
#[kani::stub(crate::proto::repl, crate::verif_util::proto_repl_stub)]
fn c03_udp_v4() {
    udp_case(false, 12, 3, 1)
}

//# harness: c03_udp_v6_empty
//# props: C03 C04 C09 C19 C01
//# tier: quick
//# encodes: layer_4::udp::repl
//# bounds: 8-byte UDP header fully symbolic, empty payload; application reply None or 2 bytes; IPv6; empty connection table
//# stubs: proto::repl -> recording contract stub
//# cover: datagram answered
//# cover: datagram not answered
#[kani::proof]
#[kani::unwind(6)]
#[kani::stub(crate::proto::repl, crate::verif_util::proto_repl_stub)]
fn c03_udp_v6_empty() {
    udp_case(true, 8, 2, 0)
}

//# harness: c20_udp_events
//# props: C20
//# tier: quick
//# encodes: layer_4::udp::repl
//# encodes: logger::MetaLogger::{udp_recv,udp_send,udp_drop}
//# bounds: 8-byte header + 2 payload bytes symbolic; application reply None or 2 bytes
//# stubs: proto::repl -> recording contract stub
//# cover: answered
//# cover: dropped
#[kani::proof]
#[kani::unwind(8)]
#[kani::stub(crate::proto::repl, crate::verif_util::proto_repl_stub)]
fn c20_udp_events() {
    let buf: [u8; 10] = kani::any();
    let udp_req = UdpPacket::new(&buf[..]).unwrap();
    let masscanned = ms_counting([0, 0], MacAddr::new(0, 1, 2, 3, 4, 5));
    let mut ci = ClientInfo::new();
    ci.ip.src = Some(IpAddr::V4(any_ip4()));
    ci.ip.dst = Some(IpAddr::V4(any_ip4()));
    ci.transport = Some(IpNextHeaderProtocols::Udp);
    proto_rec().cfg_reply_len = 2;
    let r = repl(&udp_req, &masscanned, &mut ci);
    assert!(balanced(L_UDP, r.is_some()), "C20: UDP layer did not log exactly one recv and one terminal event (send iff answered)");
    let shown = ev(L_UDP).ci_recv.unwrap();
    assert!(shown.port.src == Some(udp_req.get_source()) && shown.port.dst == Some(udp_req.get_destination()), "C20: ports shown to the logger are not the datagram's");
    kani::cover!(r.is_some(), "answered");
    kani::cover!(r.is_none(), "dropped");
}
