//@ target: src/proto/mod.rs
//@ mod: verif_dispatch
//@ needs: tables
// The real `proto::repl` dispatcher with the eight responders replaced by tag-returning
// stubs: which responder handles a payload (C10), independence from ports / addresses /
// IP version (C19), invariance of the per-flow state (C01 invariant, C08).
use crate::client::ClientInfo;
use crate::verif_util::*;
use crate::Masscanned;
use pnet::packet::ip::IpNextHeaderProtocols;
use pnet::util::MacAddr;
use std::net::{IpAddr, Ipv4Addr, Ipv6Addr};

pub fn tag_http(_d: &[u8], _m: &Masscanned, _c: &ClientInfo, _t: Option<&mut TCPControlBlock>) -> Option<Vec<u8>> { Some(vec![PROTO_HTTP as u8]) }
pub fn tag_stun(_d: &[u8], _m: &Masscanned, _c: &mut ClientInfo, _t: Option<&mut TCPControlBlock>) -> Option<Vec<u8>> { Some(vec![PROTO_STUN as u8]) }
pub fn tag_ssh(_d: &[u8], _m: &Masscanned, _c: &ClientInfo, _t: Option<&mut TCPControlBlock>) -> Option<Vec<u8>> { Some(vec![PROTO_SSH as u8]) }
pub fn tag_ghost(_d: &[u8], _m: &Masscanned, _c: &mut ClientInfo, _t: Option<&mut TCPControlBlock>) -> Option<Vec<u8>> { Some(vec![PROTO_GHOST as u8]) }
pub fn tag_rpc_tcp(_d: &[u8], _m: &Masscanned, _c: &ClientInfo, _t: Option<&mut TCPControlBlock>) -> Option<Vec<u8>> { Some(vec![PROTO_RPC_TCP as u8]) }
pub fn tag_rpc_udp(_d: &[u8], _m: &Masscanned, _c: &ClientInfo, _t: Option<&mut TCPControlBlock>) -> Option<Vec<u8>> { Some(vec![PROTO_RPC_UDP as u8]) }
pub fn tag_smb1(_d: &[u8], _m: &Masscanned, _c: &ClientInfo, _t: Option<&mut TCPControlBlock>) -> Option<Vec<u8>> { Some(vec![PROTO_SMB1 as u8]) }
pub fn tag_smb2(_d: &[u8], _m: &Masscanned, _c: &ClientInfo, _t: Option<&mut TCPControlBlock>) -> Option<Vec<u8>> { Some(vec![PROTO_SMB2 as u8]) }

fn ci_any(v6: bool, tcp: bool) -> ClientInfo {
    let mut ci = ClientInfo::new();
    if v6 {
        ci.ip.src = Some(IpAddr::V6(any_ip6()));
        ci.ip.dst = Some(IpAddr::V6(any_ip6()));
    } else {
        ci.ip.src = Some(IpAddr::V4(any_ip4()));
        ci.ip.dst = Some(IpAddr::V4(any_ip4()));
    }
    ci.port.src = Some(kani::any());
    ci.port.dst = Some(kani::any());
    if tcp {
        ci.transport = Some(IpNextHeaderProtocols::Tcp);
        ci.cookie = Some(kani::any());
    } else {
        ci.transport = Some(IpNextHeaderProtocols::Udp);
    }
    ci
}

fn fill(buf: &mut [u8], pat: &[u8], wild: bool) {
    let mut i = 0;
    while i < pat.len() {
        if !(wild && pat[i] == b'*') {
            buf[i] = pat[i];
        }
        i += 1;
    }
}

/// which: index into the signature list below.  The payload completes that signature
/// (wildcard and trailing bytes arbitrary, outside the known shadow classes); datagram mode
/// and TCP mode (fresh control block, prefix cut at `cut`) must both hand it to the right
/// responder, from any port / address / IP version.
fn dispatch_positive(which: usize, total: usize, cut: usize) {
    lazy_static::initialize(&PROTO_SMACK);
    let mut d: [u8; 30] = kani::any();
    let want: usize;
    match which {
        0 => { fill(&mut d, b"GET /", false); want = PROTO_HTTP; }
        1 => { fill(&mut d, b"OPTIONS /", false); want = PROTO_HTTP; }
        2 => { fill(&mut d, b"SSH-2.0", false); want = PROTO_SSH; }
        3 => { fill(&mut d, b"SSH-1.99", false); want = PROTO_SSH; }
        4 => { fill(&mut d, b"Gh0st", false); want = PROTO_GHOST; }
        5 => { fill(&mut d, STUN_PATTERN_MAGIC, true); kani::assume(d[2] != 0); want = PROTO_STUN; }
        6 => { fill(&mut d, SMB1_PATTERN_MAGIC, true); want = PROTO_SMB1; }
        7 => { fill(&mut d, SMB2_PATTERN_MAGIC, true); want = PROTO_SMB2; }
        8 => {
            fill(&mut d, RPC_CALL_UDP, true);
            let c = d[0];
            kani::assume(c != 0 && c != b'G' && c != b'P' && c != b'H' && c != b'D' && c != b'C' && c != b'O' && c != b'T' && c != b'S');
            want = PROTO_RPC_UDP;
        }
        _ => {
            fill(&mut d, RPC_CALL_TCP, true);
            let c = d[0];
            kani::assume(c != 0 && c != b'G' && c != b'P' && c != b'H' && c != b'D' && c != b'C' && c != b'O' && c != b'T' && c != b'S');
            kani::assume(d[4] != 0);
            want = PROTO_RPC_TCP;
        }
    }
    let masscanned = ms_plain([0, 0], MacAddr::new(0, 1, 2, 3, 4, 5));
    // datagram mode, IPv4
    let mut c1 = ci_any(false, false);
    let r1 = repl(&d[..total], &masscanned, &mut c1, None);
    assert!(r1.is_some() && r1.as_ref().unwrap()[0] as usize == want, "C10: payload completing a signature not handed to that protocol's responder (datagram)");
    // datagram mode, IPv6, other ports: same decision
    let mut c2 = ci_any(true, false);
    let r2 = repl(&d[..total], &masscanned, &mut c2, None);
    assert!(r2.is_some() && r2.unwrap()[0] as usize == want, "C19: dispatch depends on ports / addresses / IP version");
    // TCP mode, fresh control block, payload cut in two segments
    let mut tcb = TCPControlBlock { smack_state: BASE_STATE, proto_id: PROTO_NONE, proto_state: None };
    let mut c3 = ci_any(false, true);
    let ra = repl(&d[..cut], &masscanned, &mut c3, Some(&mut tcb));
    let rb = repl(&d[cut..total], &masscanned, &mut c3, Some(&mut tcb));
    let got = match (ra, rb) {
        (Some(a), _) => a[0] as usize,
        (None, Some(b)) => b[0] as usize,
        _ => 0,
    };
    assert!(got == want && tcb.proto_id == want, "C10: TCP dispatch depends on how the leading bytes are split into segments");
    kani::cover!(true, "dispatched");
    std::mem::forget(tcb);
}

/// payloads that complete no signature are not handed to any signature-dispatched responder
/// (datagram mode, DNS fallback cut away by its own stub) - small prefix space: 6 bytes
fn dispatch_negative() {
    lazy_static::initialize(&PROTO_SMACK);
    let d: [u8; 6] = kani::any();
    // no HTTP method initial, not "SSH-", not "Gh0st", and byte 0 != 0 rules out STUN/SMB;
    // RPC needs >= 23 bytes
    let c = d[0];
    kani::assume(c != 0 && c != b'G' && c != b'P' && c != b'H' && c != b'D' && c != b'C' && c != b'O' && c != b'T' && c != b'S');
    let masscanned = ms_plain([0, 0], MacAddr::new(0, 1, 2, 3, 4, 5));
    let mut c1 = ci_any(false, false);
    let r = repl(&d, &masscanned, &mut c1, None);
    assert!(r.is_none(), "C10: payload completing no signature answered by a signature-dispatched responder");
    let mut tcb = TCPControlBlock { smack_state: BASE_STATE, proto_id: PROTO_NONE, proto_state: None };
    let mut c3 = ci_any(true, true);
    let r2 = repl(&d, &masscanned, &mut c3, Some(&mut tcb));
    assert!(r2.is_none() && tcb.proto_id == PROTO_NONE, "C10: TCP payload completing no signature dispatched");
    kani::cover!(true, "not dispatched");
    std::mem::forget(tcb);
}


//# harness: c10_dispatch_pos_0
//# props: C10 C19
//# tier: quick
//# encodes: proto::repl (dispatcher: datagram mode and TCP mode with control block)
//# encodes: smack::Smack::search_next / search_next_end on the real PROTO tables
//# bounds: payload of 6 bytes completing the signature GET /; wildcard and trailing bytes arbitrary; datagram over IPv4 and IPv6 with arbitrary ports/addresses; TCP with a fresh control block, payload cut after byte 3
//# stubs: the eight responders -> tag-returning functions; proto_init -> constructor over the natively dumped real tables
//# cover: dispatched
#[kani::proof]
#[kani::unwind(34)]
#[kani::stub(crate::proto::proto_init, crate::proto::verif_proto_init_stub)]
#[kani::stub(crate::proto::http::repl, tag_http)]
#[kani::stub(crate::proto::stun::repl, tag_stun)]
#[kani::stub(crate::proto::ssh::repl, tag_ssh)]
#[kani::stub(crate::proto::ghost::repl, tag_ghost)]
#[kani::stub(crate::proto::rpc::repl_tcp, tag_rpc_tcp)]
#[kani::stub(crate::proto::rpc::repl_udp, tag_rpc_udp)]
#[kani::stub(crate::proto::smb::repl_smb1, tag_smb1)]
#[kani::stub(crate::proto::smb::repl_smb2, tag_smb2)]
fn c10_dispatch_pos_0() {
    dispatch_positive(0, 6, 3)
}

//# harness: c10_dispatch_pos_1
//# props: C10 C19
//# tier: thorough
//# encodes: proto::repl (dispatcher: datagram mode and TCP mode with control block)
//# encodes: smack::Smack::search_next / search_next_end on the real PROTO tables
//# bounds: payload of 10 bytes completing the signature OPTIONS /; wildcard and trailing bytes arbitrary; datagram over IPv4 and IPv6 with arbitrary ports/addresses; TCP with a fresh control block, payload cut after byte 3
//# stubs: the eight responders -> tag-returning functions; proto_init -> constructor over the natively dumped real tables
//# cover: dispatched
#[kani::proof]
#[kani::unwind(34)]
#[kani::stub(crate::proto::proto_init, crate::proto::verif_proto_init_stub)]
#[kani::stub(crate::proto::http::repl, tag_http)]
#[kani::stub(crate::proto::stun::repl, tag_stun)]
#[kani::stub(crate::proto::ssh::repl, tag_ssh)]
#[kani::stub(crate::proto::ghost::repl, tag_ghost)]
#[kani::stub(crate::proto::rpc::repl_tcp, tag_rpc_tcp)]
#[kani::stub(crate::proto::rpc::repl_udp, tag_rpc_udp)]
#[kani::stub(crate::proto::smb::repl_smb1, tag_smb1)]
#[kani::stub(crate::proto::smb::repl_smb2, tag_smb2)]
fn c10_dispatch_pos_1() {
    dispatch_positive(1, 10, 3)
}

//# harness: c10_dispatch_pos_2
//# props: C10 C19
//# tier: thorough
//# encodes: proto::repl (dispatcher: datagram mode and TCP mode with control block)
//# encodes: smack::Smack::search_next / search_next_end on the real PROTO tables
//# bounds: payload of 8 bytes completing the signature SSH-2.0; wildcard and trailing bytes arbitrary; datagram over IPv4 and IPv6 with arbitrary ports/addresses; TCP with a fresh control block, payload cut after byte 3
//# stubs: the eight responders -> tag-returning functions; proto_init -> constructor over the natively dumped real tables
//# cover: dispatched
#[kani::proof]
#[kani::unwind(34)]
#[kani::stub(crate::proto::proto_init, crate::proto::verif_proto_init_stub)]
#[kani::stub(crate::proto::http::repl, tag_http)]
#[kani::stub(crate::proto::stun::repl, tag_stun)]
#[kani::stub(crate::proto::ssh::repl, tag_ssh)]
#[kani::stub(crate::proto::ghost::repl, tag_ghost)]
#[kani::stub(crate::proto::rpc::repl_tcp, tag_rpc_tcp)]
#[kani::stub(crate::proto::rpc::repl_udp, tag_rpc_udp)]
#[kani::stub(crate::proto::smb::repl_smb1, tag_smb1)]
#[kani::stub(crate::proto::smb::repl_smb2, tag_smb2)]
fn c10_dispatch_pos_2() {
    dispatch_positive(2, 8, 3)
}

//# harness: c10_dispatch_pos_3
//# props: C10 C19
//# tier: thorough
//# encodes: proto::repl (dispatcher: datagram mode and TCP mode with control block)
//# encodes: smack::Smack::search_next / search_next_end on the real PROTO tables
//# bounds: payload of 9 bytes completing the signature SSH-1.99; wildcard and trailing bytes arbitrary; datagram over IPv4 and IPv6 with arbitrary ports/addresses; TCP with a fresh control block, payload cut after byte 3
//# stubs: the eight responders -> tag-returning functions; proto_init -> constructor over the natively dumped real tables
//# cover: dispatched
#[kani::proof]
#[kani::unwind(34)]
#[kani::stub(crate::proto::proto_init, crate::proto::verif_proto_init_stub)]
#[kani::stub(crate::proto::http::repl, tag_http)]
#[kani::stub(crate::proto::stun::repl, tag_stun)]
#[kani::stub(crate::proto::ssh::repl, tag_ssh)]
#[kani::stub(crate::proto::ghost::repl, tag_ghost)]
#[kani::stub(crate::proto::rpc::repl_tcp, tag_rpc_tcp)]
#[kani::stub(crate::proto::rpc::repl_udp, tag_rpc_udp)]
#[kani::stub(crate::proto::smb::repl_smb1, tag_smb1)]
#[kani::stub(crate::proto::smb::repl_smb2, tag_smb2)]
fn c10_dispatch_pos_3() {
    dispatch_positive(3, 9, 3)
}

//# harness: c10_dispatch_pos_4
//# props: C10 C19
//# tier: thorough
//# encodes: proto::repl (dispatcher: datagram mode and TCP mode with control block)
//# encodes: smack::Smack::search_next / search_next_end on the real PROTO tables
//# bounds: payload of 6 bytes completing the signature Gh0st; wildcard and trailing bytes arbitrary; datagram over IPv4 and IPv6 with arbitrary ports/addresses; TCP with a fresh control block, payload cut after byte 3
//# stubs: the eight responders -> tag-returning functions; proto_init -> constructor over the natively dumped real tables
//# cover: dispatched
#[kani::proof]
#[kani::unwind(34)]
#[kani::stub(crate::proto::proto_init, crate::proto::verif_proto_init_stub)]
#[kani::stub(crate::proto::http::repl, tag_http)]
#[kani::stub(crate::proto::stun::repl, tag_stun)]
#[kani::stub(crate::proto::ssh::repl, tag_ssh)]
#[kani::stub(crate::proto::ghost::repl, tag_ghost)]
#[kani::stub(crate::proto::rpc::repl_tcp, tag_rpc_tcp)]
#[kani::stub(crate::proto::rpc::repl_udp, tag_rpc_udp)]
#[kani::stub(crate::proto::smb::repl_smb1, tag_smb1)]
#[kani::stub(crate::proto::smb::repl_smb2, tag_smb2)]
fn c10_dispatch_pos_4() {
    dispatch_positive(4, 6, 3)
}

//# harness: c10_dispatch_pos_5
//# props: C10 C19
//# tier: quick
//# encodes: proto::repl (dispatcher: datagram mode and TCP mode with control block)
//# encodes: smack::Smack::search_next / search_next_end on the real PROTO tables
//# bounds: payload of 10 bytes completing the signature STUN magic-cookie binding request (message length >= 256, i.e. outside the known shadow class); wildcard and trailing bytes arbitrary; datagram over IPv4 and IPv6 with arbitrary ports/addresses; TCP with a fresh control block, payload cut after byte 3
//# stubs: the eight responders -> tag-returning functions; proto_init -> constructor over the natively dumped real tables
//# cover: dispatched
#[kani::proof]
#[kani::unwind(34)]
#[kani::stub(crate::proto::proto_init, crate::proto::verif_proto_init_stub)]
#[kani::stub(crate::proto::http::repl, tag_http)]
#[kani::stub(crate::proto::stun::repl, tag_stun)]
#[kani::stub(crate::proto::ssh::repl, tag_ssh)]
#[kani::stub(crate::proto::ghost::repl, tag_ghost)]
#[kani::stub(crate::proto::rpc::repl_tcp, tag_rpc_tcp)]
#[kani::stub(crate::proto::rpc::repl_udp, tag_rpc_udp)]
#[kani::stub(crate::proto::smb::repl_smb1, tag_smb1)]
#[kani::stub(crate::proto::smb::repl_smb2, tag_smb2)]
fn c10_dispatch_pos_5() {
    dispatch_positive(5, 10, 3)
}

//# harness: c10_dispatch_pos_6
//# props: C10 C19
//# tier: thorough
//# encodes: proto::repl (dispatcher: datagram mode and TCP mode with control block)
//# encodes: smack::Smack::search_next / search_next_end on the real PROTO tables
//# bounds: payload of 9 bytes completing the signature SMB1 in a NetBIOS session message; wildcard and trailing bytes arbitrary; datagram over IPv4 and IPv6 with arbitrary ports/addresses; TCP with a fresh control block, payload cut after byte 3
//# stubs: the eight responders -> tag-returning functions; proto_init -> constructor over the natively dumped real tables
//# cover: dispatched
#[kani::proof]
#[kani::unwind(34)]
#[kani::stub(crate::proto::proto_init, crate::proto::verif_proto_init_stub)]
#[kani::stub(crate::proto::http::repl, tag_http)]
#[kani::stub(crate::proto::stun::repl, tag_stun)]
#[kani::stub(crate::proto::ssh::repl, tag_ssh)]
#[kani::stub(crate::proto::ghost::repl, tag_ghost)]
#[kani::stub(crate::proto::rpc::repl_tcp, tag_rpc_tcp)]
#[kani::stub(crate::proto::rpc::repl_udp, tag_rpc_udp)]
#[kani::stub(crate::proto::smb::repl_smb1, tag_smb1)]
#[kani::stub(crate::proto::smb::repl_smb2, tag_smb2)]
fn c10_dispatch_pos_6() {
    dispatch_positive(6, 9, 3)
}

//# harness: c10_dispatch_pos_7
//# props: C10 C19
//# tier: thorough
//# encodes: proto::repl (dispatcher: datagram mode and TCP mode with control block)
//# encodes: smack::Smack::search_next / search_next_end on the real PROTO tables
//# bounds: payload of 9 bytes completing the signature SMB2 in a NetBIOS session message; wildcard and trailing bytes arbitrary; datagram over IPv4 and IPv6 with arbitrary ports/addresses; TCP with a fresh control block, payload cut after byte 3
//# stubs: the eight responders -> tag-returning functions; proto_init -> constructor over the natively dumped real tables
//# cover: dispatched
#[kani::proof]
#[kani::unwind(34)]
#[kani::stub(crate::proto::proto_init, crate::proto::verif_proto_init_stub)]
#[kani::stub(crate::proto::http::repl, tag_http)]
#[kani::stub(crate::proto::stun::repl, tag_stun)]
#[kani::stub(crate::proto::ssh::repl, tag_ssh)]
#[kani::stub(crate::proto::ghost::repl, tag_ghost)]
#[kani::stub(crate::proto::rpc::repl_tcp, tag_rpc_tcp)]
#[kani::stub(crate::proto::rpc::repl_udp, tag_rpc_udp)]
#[kani::stub(crate::proto::smb::repl_smb1, tag_smb1)]
#[kani::stub(crate::proto::smb::repl_smb2, tag_smb2)]
fn c10_dispatch_pos_7() {
    dispatch_positive(7, 9, 3)
}

//# harness: c10_dispatch_pos_8
//# props: C10 C19
//# tier: extended
//# encodes: proto::repl (dispatcher: datagram mode and TCP mode with control block)
//# encodes: smack::Smack::search_next / search_next_end on the real PROTO tables
//# bounds: payload of 25 bytes completing the signature ONC-RPC call over UDP (XID first byte outside the known shadow class); wildcard and trailing bytes arbitrary; datagram over IPv4 and IPv6 with arbitrary ports/addresses; TCP with a fresh control block, payload cut after byte 3
//# stubs: the eight responders -> tag-returning functions; proto_init -> constructor over the natively dumped real tables
//# cover: dispatched
#[kani::proof]
#[kani::unwind(34)]
#[kani::stub(crate::proto::proto_init, crate::proto::verif_proto_init_stub)]
#[kani::stub(crate::proto::http::repl, tag_http)]
#[kani::stub(crate::proto::stun::repl, tag_stun)]
#[kani::stub(crate::proto::ssh::repl, tag_ssh)]
#[kani::stub(crate::proto::ghost::repl, tag_ghost)]
#[kani::stub(crate::proto::rpc::repl_tcp, tag_rpc_tcp)]
#[kani::stub(crate::proto::rpc::repl_udp, tag_rpc_udp)]
#[kani::stub(crate::proto::smb::repl_smb1, tag_smb1)]
#[kani::stub(crate::proto::smb::repl_smb2, tag_smb2)]
fn c10_dispatch_pos_8() {
    dispatch_positive(8, 25, 3)
}

//# harness: c10_dispatch_pos_9
//# props: C10 C19
//# tier: extended
//# encodes: proto::repl (dispatcher: datagram mode and TCP mode with control block)
//# encodes: smack::Smack::search_next / search_next_end on the real PROTO tables
//# bounds: payload of 29 bytes completing the signature ONC-RPC call over TCP (record mark / XID outside the known shadow classes); wildcard and trailing bytes arbitrary; datagram over IPv4 and IPv6 with arbitrary ports/addresses; TCP with a fresh control block, payload cut after byte 3
//# stubs: the eight responders -> tag-returning functions; proto_init -> constructor over the natively dumped real tables
//# cover: dispatched
#[kani::proof]
#[kani::unwind(34)]
#[kani::stub(crate::proto::proto_init, crate::proto::verif_proto_init_stub)]
#[kani::stub(crate::proto::http::repl, tag_http)]
#[kani::stub(crate::proto::stun::repl, tag_stun)]
#[kani::stub(crate::proto::ssh::repl, tag_ssh)]
#[kani::stub(crate::proto::ghost::repl, tag_ghost)]
#[kani::stub(crate::proto::rpc::repl_tcp, tag_rpc_tcp)]
#[kani::stub(crate::proto::rpc::repl_udp, tag_rpc_udp)]
#[kani::stub(crate::proto::smb::repl_smb1, tag_smb1)]
#[kani::stub(crate::proto::smb::repl_smb2, tag_smb2)]
fn c10_dispatch_pos_9() {
    dispatch_positive(9, 29, 3)
}

//# harness: c10_dispatch_neg_6
//# props: C10
//# tier: quick
//# encodes: proto::repl (dispatcher)
//# bounds: 6 arbitrary bytes whose first byte is none of 00 G P H D C O T S (no signature can complete); datagram and TCP mode
//# stubs: the eight responders -> tag-returning functions; proto_init -> real tables; (none for DNS: 6 bytes cannot hold the 12-byte DNS header, so the real DNS fallback parser rejects them)
//# note: the exhaustive negative direction over all strings <= 29 bytes is decided by the z3 table engine (lib/c10_z3.py)
//# cover: not dispatched
#[kani::proof]
#[kani::unwind(12)]
#[kani::stub(crate::proto::proto_init, crate::proto::verif_proto_init_stub)]
#[kani::stub(crate::proto::http::repl, tag_http)]
#[kani::stub(crate::proto::stun::repl, tag_stun)]
#[kani::stub(crate::proto::ssh::repl, tag_ssh)]
#[kani::stub(crate::proto::ghost::repl, tag_ghost)]
#[kani::stub(crate::proto::rpc::repl_tcp, tag_rpc_tcp)]
#[kani::stub(crate::proto::rpc::repl_udp, tag_rpc_udp)]
#[kani::stub(crate::proto::smb::repl_smb1, tag_smb1)]
#[kani::stub(crate::proto::smb::repl_smb2, tag_smb2)]
fn c10_dispatch_neg_6() {
    dispatch_negative()
}

/// per-flow dispatcher state lives in the flow's control block only: handling a segment of
/// another flow in between changes nothing for this flow
fn dispatch_isolation() {
    lazy_static::initialize(&PROTO_SMACK);
    let a: [u8; 4] = kani::any();
    let b: [u8; 4] = kani::any();
    let x: [u8; 5] = kani::any();
    let masscanned = ms_plain([0, 0], MacAddr::new(0, 1, 2, 3, 4, 5));
    // run 1: flow F sends a, foreign flow G sends x, F sends b
    let mut f1 = TCPControlBlock { smack_state: BASE_STATE, proto_id: PROTO_NONE, proto_state: None };
    let mut g = TCPControlBlock { smack_state: BASE_STATE, proto_id: PROTO_NONE, proto_state: None };
    let mut cf = ci_any(false, true);
    let mut cg = ci_any(false, true);
    let r1a = repl(&a, &masscanned, &mut cf, Some(&mut f1));
    let _ = repl(&x, &masscanned, &mut cg, Some(&mut g));
    let r1b = repl(&b, &masscanned, &mut cf, Some(&mut f1));
    // run 2: flow F alone
    let mut f2 = TCPControlBlock { smack_state: BASE_STATE, proto_id: PROTO_NONE, proto_state: None };
    let r2a = repl(&a, &masscanned, &mut cf, Some(&mut f2));
    let r2b = repl(&b, &masscanned, &mut cf, Some(&mut f2));
    assert!(r1a.is_some() == r2a.is_some() && r1b.is_some() == r2b.is_some(), "C08: traffic of another flow changed whether a segment is answered");
    assert!(f1.proto_id == f2.proto_id && f1.smack_state == f2.smack_state, "C08: traffic of another flow changed this flow's dispatcher state");
    if let (Some(p), Some(q)) = (&r1b, &r2b) {
        assert!(p[0] == q[0], "C08: traffic of another flow changed which responder answers");
    }
    kani::cover!(r1b.is_some(), "second segment dispatched");
    kani::cover!(r1a.is_none() && r1b.is_none(), "nothing dispatched");
    std::mem::forget(f1);
    std::mem::forget(f2);
    std::mem::forget(g);
}

//# harness: c08_dispatch_isolation
//# props: C08
//# tier: quick
//# encodes: proto::repl (TCP mode) on the real PROTO tables
//# bounds: flow F sends 4 + 4 arbitrary bytes in two segments; a foreign flow G sends 5 arbitrary bytes in between; compared with F alone
//# stubs: the eight responders -> tag-returning functions; proto_init -> real tables
//# cover: second segment dispatched
//# cover: nothing dispatched
#[kani::proof]
#[kani::unwind(12)]
#[kani::stub(crate::proto::proto_init, crate::proto::verif_proto_init_stub)]
#[kani::stub(crate::proto::http::repl, tag_http)]
#[kani::stub(crate::proto::stun::repl, tag_stun)]
#[kani::stub(crate::proto::ssh::repl, tag_ssh)]
#[kani::stub(crate::proto::ghost::repl, tag_ghost)]
#[kani::stub(crate::proto::rpc::repl_tcp, tag_rpc_tcp)]
#[kani::stub(crate::proto::rpc::repl_udp, tag_rpc_udp)]
#[kani::stub(crate::proto::smb::repl_smb1, tag_smb1)]
#[kani::stub(crate::proto::smb::repl_smb2, tag_smb2)]
fn c08_dispatch_isolation() {
    dispatch_isolation()
}

/// DNS has no signature: it is reached through the dispatcher's fallback for datagrams that
/// match nothing.  An IN/A query must be answered from ANY port pair and address.
fn dns_via_dispatch() {
    lazy_static::initialize(&PROTO_SMACK);
    // a 12-byte query with QDCOUNT = 0 (the byte-wise DNS parser costs ~17k symex steps per
    // byte, so the smallest complete query is used; questions are decided by c14_dns_*)
    let mut d = [0u8; 12];
    let id: [u8; 2] = kani::any();
    // ID first byte outside the literal-start bytes of the signature set, so that no
    // signature can be in progress (those payloads are C10's business)
    let c = id[0];
    kani::assume(c != 0 && c != b'G' && c != b'P' && c != b'H' && c != b'D' && c != b'C' && c != b'O' && c != b'T' && c != b'S');
    d[0] = id[0];
    d[1] = id[1];
    d[2] = 0x01; // RD
    let masscanned = ms_plain([0, 0], MacAddr::new(0, 1, 2, 3, 4, 5));
    let mut c1 = ci_any(false, false);
    let r = repl(&d, &masscanned, &mut c1, None);
    let v = match r {
        Some(v) => v,
        None => { assert!(false, "C19/C14: DNS query not answered for some port pair / address"); return; }
    };
    assert!(v.len() == 12 && v[0] == id[0] && v[1] == id[1] && v[2] & 0x80 != 0 && v[2] & 1 == 1, "C14: malformed DNS answer through the dispatcher");
    kani::cover!(c1.port.src == Some(7), "answered from source port 7");
    kani::cover!(true, "dns answered through the dispatcher");
}

//# harness: c19_dns_via_dispatch
//# props: C19 C14 C10@thorough
//# tier: thorough
//# timeout: 900
//# encodes: proto::repl (datagram mode: matcher, end-of-input step, DNS fallback), proto::dns::DNSPacket::{try_from,repl}
//# bounds: 12-byte DNS query with QDCOUNT = 0 and symbolic ID (first byte outside the signature start bytes); source/destination ports and IPv4 addresses fully symbolic
//# stubs: proto_init -> real tables; the eight signature-dispatched responders -> tag-returning functions (the symbolic ID keeps the matcher result symbolic for symbolic execution; the DNS fallback path is real)
//# cover: answered from source port 7
//# cover: dns answered through the dispatcher
#[kani::proof]
#[kani::unwind(40)]
#[kani::stub(crate::proto::proto_init, crate::proto::verif_proto_init_stub)]
#[kani::stub(crate::proto::http::repl, tag_http)]
#[kani::stub(crate::proto::stun::repl, tag_stun)]
#[kani::stub(crate::proto::ssh::repl, tag_ssh)]
#[kani::stub(crate::proto::ghost::repl, tag_ghost)]
#[kani::stub(crate::proto::rpc::repl_tcp, tag_rpc_tcp)]
#[kani::stub(crate::proto::rpc::repl_udp, tag_rpc_udp)]
#[kani::stub(crate::proto::smb::repl_smb1, tag_smb1)]
#[kani::stub(crate::proto::smb::repl_smb2, tag_smb2)]
fn c19_dns_via_dispatch() {
    dns_via_dispatch()
}


// ---- C11 at the dispatcher: the responder of a flow is fed the stream from its first byte ----
// The HTTP / ONC-RPC responders are replaced by recorders that compare every byte they are
// handed with the stream, in order.  Together with the parser-level cut lemmas
// (c11_http_stream_cuts_*, c16_rpc_tcp_parse_cut*: the parsers keep all their state in the
// control block) "the bytes handed to the responder concatenate to the stream" gives the
// flow-level statement for two segments.
pub static mut FEED_EXPECT: [u8; 48] = [0; 48];
pub static mut FEED_POS: usize = 0;
pub static mut FEED_OK: bool = true;
fn feed(d: &[u8]) {
    unsafe {
        let mut i = 0;
        while i < d.len() {
            if FEED_POS + i >= 48 || FEED_EXPECT[FEED_POS + i] != d[i] {
                FEED_OK = false;
            }
            i += 1;
        }
        FEED_POS += d.len();
    }
}
pub static mut FEED_STATE_OK: bool = true;
/// the responders start with `match t.proto_state { None => .., Some(<own>) => .., _ => panic!() }`:
/// the dispatcher must hand them a control block whose protocol state is empty or their own
pub fn rec_http(d: &[u8], _m: &Masscanned, _c: &ClientInfo, t: Option<&mut TCPControlBlock>) -> Option<Vec<u8>> {
    feed(d);
    if let Some(t) = t {
        if !matches!(t.proto_state, None | Some(ProtocolState::HTTP(_))) {
            unsafe { FEED_STATE_OK = false; }
        }
    }
    None
}
pub fn rec_rpc_tcp(d: &[u8], _m: &Masscanned, _c: &ClientInfo, t: Option<&mut TCPControlBlock>) -> Option<Vec<u8>> {
    feed(d);
    if let Some(t) = t {
        if !matches!(t.proto_state, None | Some(ProtocolState::RPC(_))) {
            unsafe { FEED_STATE_OK = false; }
        }
    }
    None
}

/// stream s[..n] on a fresh flow, cut in two at every position in lo..hi
fn feed_case(s: &[u8; 48], n: usize, lo: usize, hi: usize, want: usize) {
    lazy_static::initialize(&PROTO_SMACK);
    let masscanned = ms_plain([0, 0], MacAddr::new(0, 1, 2, 3, 4, 5));
    let mut ci = ci_any(false, true);
    let mut cut = lo;
    while cut < hi {
        unsafe {
            FEED_EXPECT = *s;
            FEED_POS = 0;
            FEED_OK = true;
            FEED_STATE_OK = true;
        }
        let mut tcb = TCPControlBlock { smack_state: BASE_STATE, proto_id: PROTO_NONE, proto_state: None };
        let _ = repl(&s[..cut], &masscanned, &mut ci, Some(&mut tcb));
        let _ = repl(&s[cut..n], &masscanned, &mut ci, Some(&mut tcb));
        assert!(tcb.proto_id == want, "C10: TCP identification depends on how the leading bytes are split into segments");
        assert!(unsafe { FEED_STATE_OK }, "C01: the responder is handed a control block holding a protocol state that is not its own (its panic!() arm is reachable)");
        assert!(unsafe { FEED_OK && FEED_POS == n }, "C11: cut inside the protocol signature: the flow's responder is not handed the stream from its first byte, so the request is parsed differently from the unsegmented stream");
        std::mem::forget(tcb);
        cut += 1;
    }
    kani::cover!(true, "all cuts examined");
}
fn http_stream() -> ([u8; 48], usize) {
    let mut s = [0u8; 48];
    let t = b"GET /t HTTP/1.v\r\n\r\n";
    let mut i = 0;
    while i < t.len() { s[i] = t[i]; i += 1; }
    s[5] = kani::any();
    s[14] = kani::any();
    (s, 19)
}
fn rpc_stream() -> ([u8; 48], usize) {
    let mut s = [0u8; 48];
    s[0] = 0x80;
    s[3] = 40;
    let x: [u8; 4] = kani::any();
    kani::assume(x[0] != 0);
    s[4] = x[0]; s[5] = x[1]; s[6] = x[2]; s[7] = x[3];
    s[15] = 2;
    s[17] = 0x01; s[18] = 0x86; s[19] = 0xa0;
    s[23] = kani::any();
    (s, 44)
}

//# harness: c11_dispatch_feed_http_sig
//# props: C11 C01
//# tier: quick
//# encodes: proto::repl (dispatcher in TCP mode with a control block: identification state kept across segments, sticky protocol, which bytes the responder is handed)
//# encodes: smack::Smack::search_next on the real PROTO tables
//# bounds: stream "GET /t HTTP/1.v CRLF CRLF" (19 bytes, target byte and version digit arbitrary) on a fresh flow, cut in two at every position 1..4 (inside the 5-byte signature)
//# stubs: http::repl and rpc::repl_tcp -> recorders comparing every byte they are handed with the stream; other responders -> tags; proto_init -> constructor over the natively dumped real tables
//# out: three and more segments (by induction from the parser-level cut lemmas); what the responders do with the bytes (c11_http_stream_cuts_*, c16_rpc_tcp_parse_cut*)
//# cover: all cuts examined
#[kani::proof]
#[kani::unwind(50)]
#[kani::stub(crate::proto::proto_init, crate::proto::verif_proto_init_stub)]
#[kani::stub(crate::proto::http::repl, rec_http)]
#[kani::stub(crate::proto::stun::repl, tag_stun)]
#[kani::stub(crate::proto::ssh::repl, tag_ssh)]
#[kani::stub(crate::proto::ghost::repl, tag_ghost)]
#[kani::stub(crate::proto::rpc::repl_tcp, rec_rpc_tcp)]
#[kani::stub(crate::proto::rpc::repl_udp, tag_rpc_udp)]
#[kani::stub(crate::proto::smb::repl_smb1, tag_smb1)]
#[kani::stub(crate::proto::smb::repl_smb2, tag_smb2)]
fn c11_dispatch_feed_http_sig() {
    let (s, n) = http_stream();
    feed_case(&s, n, 1, 5, PROTO_HTTP)
}

//# harness: c11_dispatch_feed_http_after
//# props: C11 C01
//# tier: quick
//# encodes: proto::repl (dispatcher in TCP mode with a control block: identification state kept across segments, sticky protocol, which bytes the responder is handed)
//# encodes: smack::Smack::search_next on the real PROTO tables
//# bounds: stream "GET /t HTTP/1.v CRLF CRLF" (19 bytes, target byte and version digit arbitrary) on a fresh flow, cut in two at every position 5..18 (after the signature)
//# stubs: http::repl and rpc::repl_tcp -> recorders comparing every byte they are handed with the stream; other responders -> tags; proto_init -> constructor over the natively dumped real tables
//# out: three and more segments (by induction from the parser-level cut lemmas); what the responders do with the bytes (c11_http_stream_cuts_*, c16_rpc_tcp_parse_cut*)
//# cover: all cuts examined
#[kani::proof]
#[kani::unwind(50)]
#[kani::stub(crate::proto::proto_init, crate::proto::verif_proto_init_stub)]
#[kani::stub(crate::proto::http::repl, rec_http)]
#[kani::stub(crate::proto::stun::repl, tag_stun)]
#[kani::stub(crate::proto::ssh::repl, tag_ssh)]
#[kani::stub(crate::proto::ghost::repl, tag_ghost)]
#[kani::stub(crate::proto::rpc::repl_tcp, rec_rpc_tcp)]
#[kani::stub(crate::proto::rpc::repl_udp, tag_rpc_udp)]
#[kani::stub(crate::proto::smb::repl_smb1, tag_smb1)]
#[kani::stub(crate::proto::smb::repl_smb2, tag_smb2)]
fn c11_dispatch_feed_http_after() {
    let (s, n) = http_stream();
    feed_case(&s, n, 5, 19, PROTO_HTTP)
}

//# harness: c11_dispatch_feed_rpc_cut4
//# props: C11 C01
//# tier: thorough
//# timeout: 1200
//# encodes: proto::repl (dispatcher in TCP mode with a control block: identification state kept across segments, sticky protocol, which bytes the responder is handed)
//# encodes: smack::Smack::search_next on the real PROTO tables
//# bounds: 44-byte ONC-RPC call over TCP (record mark, XID arbitrary with non-zero first byte, program 100000, program version arbitrary, procedure 0) on a fresh flow, cut in two after byte 4 (inside the 28-byte signature)
//# stubs: http::repl and rpc::repl_tcp -> recorders comparing every byte they are handed with the stream; other responders -> tags; proto_init -> constructor over the natively dumped real tables
//# out: three and more segments (by induction from the parser-level cut lemmas); what the responders do with the bytes (c16_rpc_tcp_parse_*)
//# cover: all cuts examined
#[kani::proof]
#[kani::unwind(50)]
#[kani::stub(crate::proto::proto_init, crate::proto::verif_proto_init_stub)]
#[kani::stub(crate::proto::http::repl, rec_http)]
#[kani::stub(crate::proto::stun::repl, tag_stun)]
#[kani::stub(crate::proto::ssh::repl, tag_ssh)]
#[kani::stub(crate::proto::ghost::repl, tag_ghost)]
#[kani::stub(crate::proto::rpc::repl_tcp, rec_rpc_tcp)]
#[kani::stub(crate::proto::rpc::repl_udp, tag_rpc_udp)]
#[kani::stub(crate::proto::smb::repl_smb1, tag_smb1)]
#[kani::stub(crate::proto::smb::repl_smb2, tag_smb2)]
fn c11_dispatch_feed_rpc_cut4() {
    let (s, n) = rpc_stream();
    feed_case(&s, n, 4, 5, PROTO_RPC_TCP)
}

//# harness: c11_dispatch_feed_rpc_cut27
//# props: C11 C01
//# tier: thorough
//# timeout: 1200
//# encodes: proto::repl (dispatcher in TCP mode with a control block: identification state kept across segments, sticky protocol, which bytes the responder is handed)
//# encodes: smack::Smack::search_next on the real PROTO tables
//# bounds: 44-byte ONC-RPC call over TCP (record mark, XID arbitrary with non-zero first byte, program 100000, program version arbitrary, procedure 0) on a fresh flow, cut in two after byte 27 (inside the 28-byte signature)
//# stubs: http::repl and rpc::repl_tcp -> recorders comparing every byte they are handed with the stream; other responders -> tags; proto_init -> constructor over the natively dumped real tables
//# out: three and more segments (by induction from the parser-level cut lemmas); what the responders do with the bytes (c16_rpc_tcp_parse_*)
//# cover: all cuts examined
#[kani::proof]
#[kani::unwind(50)]
#[kani::stub(crate::proto::proto_init, crate::proto::verif_proto_init_stub)]
#[kani::stub(crate::proto::http::repl, rec_http)]
#[kani::stub(crate::proto::stun::repl, tag_stun)]
#[kani::stub(crate::proto::ssh::repl, tag_ssh)]
#[kani::stub(crate::proto::ghost::repl, tag_ghost)]
#[kani::stub(crate::proto::rpc::repl_tcp, rec_rpc_tcp)]
#[kani::stub(crate::proto::rpc::repl_udp, tag_rpc_udp)]
#[kani::stub(crate::proto::smb::repl_smb1, tag_smb1)]
#[kani::stub(crate::proto::smb::repl_smb2, tag_smb2)]
fn c11_dispatch_feed_rpc_cut27() {
    let (s, n) = rpc_stream();
    feed_case(&s, n, 27, 28, PROTO_RPC_TCP)
}

//# harness: c11_dispatch_feed_rpc_cut28
//# props: C11 C01
//# tier: thorough
//# timeout: 1200
//# encodes: proto::repl (dispatcher in TCP mode with a control block: identification state kept across segments, sticky protocol, which bytes the responder is handed)
//# encodes: smack::Smack::search_next on the real PROTO tables
//# bounds: 44-byte ONC-RPC call over TCP (record mark, XID arbitrary with non-zero first byte, program 100000, program version arbitrary, procedure 0) on a fresh flow, cut in two after byte 28 (right after the 28-byte signature)
//# stubs: http::repl and rpc::repl_tcp -> recorders comparing every byte they are handed with the stream; other responders -> tags; proto_init -> constructor over the natively dumped real tables
//# out: three and more segments (by induction from the parser-level cut lemmas); what the responders do with the bytes (c16_rpc_tcp_parse_*)
//# cover: all cuts examined
#[kani::proof]
#[kani::unwind(50)]
#[kani::stub(crate::proto::proto_init, crate::proto::verif_proto_init_stub)]
#[kani::stub(crate::proto::http::repl, rec_http)]
#[kani::stub(crate::proto::stun::repl, tag_stun)]
#[kani::stub(crate::proto::ssh::repl, tag_ssh)]
#[kani::stub(crate::proto::ghost::repl, tag_ghost)]
#[kani::stub(crate::proto::rpc::repl_tcp, rec_rpc_tcp)]
#[kani::stub(crate::proto::rpc::repl_udp, tag_rpc_udp)]
#[kani::stub(crate::proto::smb::repl_smb1, tag_smb1)]
#[kani::stub(crate::proto::smb::repl_smb2, tag_smb2)]
fn c11_dispatch_feed_rpc_cut28() {
    let (s, n) = rpc_stream();
    feed_case(&s, n, 28, 29, PROTO_RPC_TCP)
}

//# harness: c11_dispatch_feed_rpc_cut43
//# props: C11 C01
//# tier: thorough
//# timeout: 1200
//# encodes: proto::repl (dispatcher in TCP mode with a control block: identification state kept across segments, sticky protocol, which bytes the responder is handed)
//# encodes: smack::Smack::search_next on the real PROTO tables
//# bounds: 44-byte ONC-RPC call over TCP (record mark, XID arbitrary with non-zero first byte, program 100000, program version arbitrary, procedure 0) on a fresh flow, cut in two after byte 43 (after the 28-byte signature)
//# stubs: http::repl and rpc::repl_tcp -> recorders comparing every byte they are handed with the stream; other responders -> tags; proto_init -> constructor over the natively dumped real tables
//# out: three and more segments (by induction from the parser-level cut lemmas); what the responders do with the bytes (c16_rpc_tcp_parse_*)
//# cover: all cuts examined
#[kani::proof]
#[kani::unwind(50)]
#[kani::stub(crate::proto::proto_init, crate::proto::verif_proto_init_stub)]
#[kani::stub(crate::proto::http::repl, rec_http)]
#[kani::stub(crate::proto::stun::repl, tag_stun)]
#[kani::stub(crate::proto::ssh::repl, tag_ssh)]
#[kani::stub(crate::proto::ghost::repl, tag_ghost)]
#[kani::stub(crate::proto::rpc::repl_tcp, rec_rpc_tcp)]
#[kani::stub(crate::proto::rpc::repl_udp, tag_rpc_udp)]
#[kani::stub(crate::proto::smb::repl_smb1, tag_smb1)]
#[kani::stub(crate::proto::smb::repl_smb2, tag_smb2)]
fn c11_dispatch_feed_rpc_cut43() {
    let (s, n) = rpc_stream();
    feed_case(&s, n, 43, 44, PROTO_RPC_TCP)
}


//# harness: c10_dispatch_stream_no_end_20
//# props: C10 C11
//# tier: quick
//# encodes: proto::repl (dispatcher in TCP mode), smack::Smack::search_next on the real PROTO tables
//# bounds: first segment of a fresh TCP flow = 20 bytes 00 01 00 00 + 16 bytes (bytes 4..7 arbitrary but not the STUN magic, last byte arbitrary, the others 0x11): the END-anchored cookie-less STUN shape, which only counts for a datagram of exactly that length
//# stubs: the eight responders -> tag-returning functions; proto_init -> constructor over the natively dumped real tables
//# out: the 28-byte END-anchored shape (same mechanism)
//# cover: not dispatched
#[kani::proof]
#[kani::unwind(34)]
#[kani::stub(crate::proto::proto_init, crate::proto::verif_proto_init_stub)]
#[kani::stub(crate::proto::http::repl, tag_http)]
#[kani::stub(crate::proto::stun::repl, tag_stun)]
#[kani::stub(crate::proto::ssh::repl, tag_ssh)]
#[kani::stub(crate::proto::ghost::repl, tag_ghost)]
#[kani::stub(crate::proto::rpc::repl_tcp, tag_rpc_tcp)]
#[kani::stub(crate::proto::rpc::repl_udp, tag_rpc_udp)]
#[kani::stub(crate::proto::smb::repl_smb1, tag_smb1)]
#[kani::stub(crate::proto::smb::repl_smb2, tag_smb2)]
fn c10_dispatch_stream_no_end_20() {
    lazy_static::initialize(&PROTO_SMACK);
    let mut d = [0x11u8; 20];
    d[0] = 0; d[1] = 1; d[2] = 0; d[3] = 0;
    let m: [u8; 4] = kani::any();
    kani::assume(!(m[0] == 0x21 && m[1] == 0x12 && m[2] == 0xa4 && m[3] == 0x42));
    d[4] = m[0]; d[5] = m[1]; d[6] = m[2]; d[7] = m[3];
    d[19] = kani::any();
    let masscanned = ms_plain([0, 0], MacAddr::new(0, 1, 2, 3, 4, 5));
    let mut tcb = TCPControlBlock { smack_state: BASE_STATE, proto_id: PROTO_NONE, proto_state: None };
    let mut ci = ci_any(false, true);
    let r1 = repl(&d, &masscanned, &mut ci, Some(&mut tcb));
    assert!(r1.is_none() && tcb.proto_id == PROTO_NONE, "C10: end-of-input signature applied to a TCP segment boundary (the decision depends on how the stream is cut)");
    kani::cover!(true, "not dispatched");
    std::mem::forget(tcb);
}


//# harness: c08_dispatch_feed_isolation
//# props: C08 C11
//# tier: quick
//# encodes: proto::repl (dispatcher in TCP mode: identification state, bytes kept while the protocol is unidentified, which bytes the responder is handed)
//# bounds: flow F sends "GE" then "T /t HTTP/1.v CRLF CRLF" (target byte and version digit arbitrary); between the two a foreign unidentified flow G (own control block, arbitrary cookie / ports / addresses) sends 3 arbitrary bytes; the HTTP responder must be handed exactly F's stream
//# stubs: http::repl and rpc::repl_tcp -> recorders comparing every byte they are handed with F's stream; other responders -> tags; proto_init -> constructor over the natively dumped real tables
//# out: more than one foreign segment; state kept in tables of more than 300 elements (unwind bound)
//# cover: responder fed
#[kani::proof]
#[kani::unwind(300)]
#[kani::stub(crate::proto::proto_init, crate::proto::verif_proto_init_stub)]
#[kani::stub(crate::proto::http::repl, rec_http)]
#[kani::stub(crate::proto::stun::repl, tag_stun)]
#[kani::stub(crate::proto::ssh::repl, tag_ssh)]
#[kani::stub(crate::proto::ghost::repl, tag_ghost)]
#[kani::stub(crate::proto::rpc::repl_tcp, rec_rpc_tcp)]
#[kani::stub(crate::proto::rpc::repl_udp, tag_rpc_udp)]
#[kani::stub(crate::proto::smb::repl_smb1, tag_smb1)]
#[kani::stub(crate::proto::smb::repl_smb2, tag_smb2)]
fn c08_dispatch_feed_isolation() {
    lazy_static::initialize(&PROTO_SMACK);
    let (s, n) = http_stream();
    let x: [u8; 3] = kani::any();
    kani::assume(x[0] != b'G' && x[0] != b'P' && x[0] != b'H' && x[0] != b'D' && x[0] != b'C' && x[0] != b'O' && x[0] != b'T' && x[0] != b'S' && x[0] != 0);
    let masscanned = ms_plain([0, 0], MacAddr::new(0, 1, 2, 3, 4, 5));
    let mut cf = ci_any(false, true);
    let mut cg = ci_any(false, true);
    unsafe {
        FEED_EXPECT = s;
        FEED_POS = 0;
        FEED_OK = true;
        FEED_STATE_OK = true;
    }
    let mut f = TCPControlBlock { smack_state: BASE_STATE, proto_id: PROTO_NONE, proto_state: None };
    let mut g = TCPControlBlock { smack_state: BASE_STATE, proto_id: PROTO_NONE, proto_state: None };
    let _ = repl(&s[..2], &masscanned, &mut cf, Some(&mut f));
    let _ = repl(&x, &masscanned, &mut cg, Some(&mut g));
    assert!(unsafe { FEED_POS } == 0, "C08: the foreign flow's bytes reached a stream responder");
    let _ = repl(&s[2..n], &masscanned, &mut cf, Some(&mut f));
    assert!(f.proto_id == PROTO_HTTP, "C08: traffic of another flow changed this flow's identification");
    assert!(unsafe { FEED_OK && FEED_POS == n && FEED_STATE_OK }, "C08: traffic of another flow changed the bytes this flow's responder is handed");
    kani::cover!(true, "responder fed");
    std::mem::forget(f);
    std::mem::forget(g);
}
