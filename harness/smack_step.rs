//@ target: src/smack/smack.rs
//@ mod: verif_smack
//@ needs: tables
// Bridge lemmas for the z3 table engine (C10) and the segmentation claim (C10/C11): on the
// REAL compiled tables, the real `search_next` / `search_next_end` compute exactly the step
// relation  row' = T[(row << shift) + C[byte]]  with stop-at-match, from ANY valid row.
use crate::smack::verif_tables;

fn last_id(s: &Smack, row: usize) -> usize {
    let c = s.m_match[row].m_count;
    if c == 0 { NO_MATCH } else { s.m_match[row].m_ids[c - 1] }
}

fn step_lemma(s: &Smack) {
    let row: usize = kani::any();
    kani::assume(row < s.m_match_limit); // a row in which no match has been reported yet
    let d: [u8; 2] = kani::any();
    let shift = s.row_shift;
    let r1 = s.transitions[(row << shift) + s.char_to_symbol[d[0] as usize] as usize];
    // one byte
    let mut st = row;
    let mut i = 0;
    let id = s.search_next(&mut st, &d[..1], &mut i);
    assert!(i == 1, "C10: search_next consumed a wrong number of bytes");
    if r1 >= s.m_match_limit {
        assert!(id == last_id(s, r1) && id != NO_MATCH, "C10: match row reached but the signature id is not reported");
        assert!(st & 0xFFFFFF == r1, "C10: packed matcher state does not hold the match row");
    } else {
        assert!(id == NO_MATCH && st == r1, "C10: search_next step differs from the table transition");
    }
    // two bytes at once == byte by byte (segmentation independence of the matcher)
    let mut st2 = row;
    let mut i2 = 0;
    let id2 = s.search_next(&mut st2, &d, &mut i2);
    if r1 >= s.m_match_limit {
        assert!(id2 == id && st2 == st && i2 == 1, "C10: a match is reported differently when more data follows");
    } else {
        let mut st3 = st;
        let mut i3 = 0;
        let id3 = s.search_next(&mut st3, &d[1..], &mut i3);
        assert!(id2 == id3 && st2 == st3 && i2 == 1 + i3, "C10: matcher result depends on segmentation");
        let r2 = s.transitions[(r1 << shift) + s.char_to_symbol[d[1] as usize] as usize];
        assert!(st2 & 0xFFFFFF == r2, "C10: two-byte step differs from two table transitions");
        kani::cover!(r2 >= s.m_match_limit, "match on second byte");
    }
    // end of input
    let mut se = row;
    let ide = s.search_next_end(&mut se);
    let re = s.transitions[(row << shift) + s.char_to_symbol[CHAR_ANCHOR_END] as usize];
    assert!(ide == last_id(s, re), "C10: search_next_end differs from one transition on the END symbol");
    kani::cover!(r1 >= s.m_match_limit, "match on first byte");
    kani::cover!(ide != NO_MATCH, "match at end of input");
}

//# harness: c10_smack_step_proto
//# props: C10 C11@thorough
//# tier: quick
//# encodes: smack::Smack::search_next, inner_match, search_next_end (the real search code)
//# bounds: PROTO tables (real Smack::compile output of this tree); any row below the match limit (all 170), any two bytes; one-byte call, two-byte call, byte-by-byte calls, end-of-input call
//# stubs: none (the Smack value is built from the natively dumped tables)
//# note: by induction on the input length this ties the z3 unrolling of lib/c10_z3.py to the real search code for inputs of any length and any segmentation
//# cover: match on first byte
//# cover: match on second byte
//# cover: match at end of input
#[kani::proof]
#[kani::unwind(6)]
fn c10_smack_step_proto() {
    let s = verif_tables::proto_smack();
    step_lemma(&s);
    std::mem::forget(s);
}

//# harness: c10_smack_step_http
//# props: C11 C13@thorough
//# tier: thorough
//# encodes: smack::Smack::search_next, inner_match, search_next_end
//# bounds: HTTP tables (methods + header names, case-insensitive); any row below the match limit, any two bytes
//# cover: match on first byte
#[kani::proof]
#[kani::unwind(6)]
fn c10_smack_step_http() {
    let s = verif_tables::http_smack();
    step_lemma(&s);
    std::mem::forget(s);
}
