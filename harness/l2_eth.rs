//@ target: src/layer_2/mod.rs
//@ mod: verif_eth
// The real `layer_2::reply` and `get_authorized_eth_addr` with ARP / IPv4 / IPv6 replaced by
// contract stubs: destination-MAC and EtherType scope (C02), Ethernet mirroring (C03), IPv4
// header checksum (C04).
use crate::client::ClientInfo;
use crate::verif_util::*;
use crate::Masscanned;
use pnet::packet::ethernet::{EthernetPacket, MutableEthernetPacket};
use pnet::packet::Packet;
use pnet::util::MacAddr;
use crate::kshim::collections::HashSet;
use std::net::{IpAddr, Ipv4Addr, Ipv6Addr};

/// Auth(mac, S) of the property text, as a predicate on a destination MAC
fn authorized(d: &[u8; 6], mac: &[u8; 6], s: Option<(&[u8; 4], &[u8; 16])>) -> bool {
    if d == mac || *d == [0xff; 6] || *d == [0x33, 0x33, 0, 0, 0, 1] {
        return true;
    }
    match s {
        Some((a4, a6)) => {
            *d == [0x01, 0x00, 0x5e, a4[1] & 0x7f, a4[2], a4[3]] || *d == [0x33, 0x33, 0xff, a6[13], a6[14], a6[15]]
        }
        None => false,
    }
}

/// et: concrete EtherType (0x0806, 0x0800, 0x86dd) or None = arbitrary unsupported type;
/// m = request payload bytes, n = length of the layer-3 packet the stub returns
/// recorder/config for the authorisation-set stub
pub static mut AUTH_CFG: (bool, [u8; 6], u32) = (false, [0; 6], 0);
/// Contract stub for `get_authorized_eth_addr` inside the `reply` harnesses: a set whose
/// membership test for THIS frame's destination MAC is an arbitrary boolean chosen in the
/// harness prologue.  That the real set has exactly the membership function Auth(mac, S) of
/// the property is decided on the real code by c02_auth_*.
pub fn auth_stub(_mac: &MacAddr, _ips: Option<&HashSet<IpAddr>>) -> HashSet<MacAddr> {
    let cfg = unsafe { &mut *std::ptr::addr_of_mut!(AUTH_CFG) };
    cfg.2 += 1;
    let mut s = HashSet::new();
    if cfg.0 {
        let d = cfg.1;
        s.insert(MacAddr::new(d[0], d[1], d[2], d[3], d[4], d[5]));
    }
    s
}

fn eth_case(et: Option<u16>, m: usize, n: usize) {
    let mut buf: [u8; 14 + 40] = kani::any();
    match et {
        Some(t) => {
            buf[12] = (t >> 8) as u8;
            buf[13] = t as u8;
        }
        None => {
            let t = (buf[12] as u16) << 8 | buf[13] as u16;
            kani::assume(t != 0x0806 && t != 0x0800 && t != 0x86dd);
        }
    }
    let eth_req = EthernetPacket::new(&buf[..14 + m]).unwrap();
    let mac_b: [u8; 6] = kani::any();
    let masscanned = ms_plain([0, 0], MacAddr::from(mac_b));
    l4_rec().cfg_len = n;
    let mut d = [0u8; 6];
    d.copy_from_slice(&buf[0..6]);
    let auth: bool = kani::any();
    unsafe {
        AUTH_CFG = (auth, d, 0);
    }
    let mut ci = ClientInfo::new();
    let r = reply(&eth_req, &masscanned, &mut ci);
    let rec = l4_rec();
    assert!(unsafe { AUTH_CFG.2 } >= 1, "C02: destination MAC not checked against the authorised set");
    assert!(ci.mac.src == Some(eth_req.get_source()) && ci.mac.dst == Some(eth_req.get_destination()), "C20: client_info MAC addresses are not the frame's");
    if !auth || et.is_none() {
        assert!(r.is_none(), "C02: frame for a foreign MAC or with an unsupported EtherType answered");
        assert!(rec.calls == 0, "C02: out-of-scope frame reached layer 3");
        kani::cover!(!auth, "dropped: foreign destination MAC");
        kani::cover!(auth && et.is_none(), "dropped: unsupported EtherType");
        return;
    }
    let p = match r {
        Some(p) => p,
        None => {
            assert!(rec.calls == 0 || !rec.some, "C03: layer-3 reply dropped by the Ethernet layer");
            kani::cover!(rec.calls == 1, "layer 3 silent");
            kani::cover!(rec.calls == 0, "layer-3 header too short");
            return;
        }
    };
    assert!(rec.calls == 1 && rec.some, "C03: Ethernet reply without a layer-3 reply");
    let b = p.packet();
    assert!(b.len() == 14 + n, "C04: frame is not Ethernet header + layer-3 packet");
    let i: usize = kani::any();
    kani::assume(i < 6);
    assert!(b[6 + i] == mac_b[i], "C03: Ethernet source is not the configured MAC");
    assert!(b[i] == buf[6 + i], "C03: Ethernet destination is not the request's source MAC");
    assert!(b[12] == buf[12] && b[13] == buf[13], "C03: EtherType not preserved");
    let j: usize = kani::any();
    kani::assume(j < n);
    if !(et == Some(0x0800) && (j == 10 || j == 11)) {
        assert!(b[14 + j] == rec.bytes[j], "C03: layer-3 bytes altered by the Ethernet layer");
    }
    if et == Some(0x0800) {
        let ihl = (b[14] & 0x0f) as usize;
        assert!(csum_ok(0, &b[14..14 + 4 * ihl]), "C04: IPv4 header checksum invalid");
    }
    kani::cover!(true, "frame emitted");
}

//# harness: c02_eth_ipv4
//# props: C02 C03 C04 C01
//# tier: quick
//# encodes: layer_2::reply
//# encodes: pnet_packet::ipv4::checksum
//# bounds: 14-byte Ethernet header fully symbolic (both MACs), EtherType 0x0800 (IPv4), 20 payload bytes; layer-3/ARP reply of 24 arbitrary bytes or silence; configured MAC symbolic; membership of the destination MAC in the authorised set arbitrary
//# stubs: layer_2::arp::repl, layer_3::ipv4::repl, layer_3::ipv6::repl -> None or a packet of 24 arbitrary bytes (IPv4: version 4, IHL >= 5 with the header inside the packet - lemma c04_ipv4_*)
//# stubs: layer_2::get_authorized_eth_addr -> set with arbitrary membership of this frame's destination (the real set is decided by c02_auth_*)
//# out: 802.1Q tags
//# cover: frame emitted
//# cover: dropped: foreign destination MAC
//# cover: layer 3 silent
#[kani::proof]
#[kani::unwind(30)]
#[kani::stub(crate::layer_2::arp::repl, crate::verif_util::l3_arp_stub)]
#[kani::stub(crate::layer_3::ipv4::repl, crate::verif_util::l3_ipv4_stub)]
#[kani::stub(crate::layer_3::ipv6::repl, crate::verif_util::l3_ipv6_stub)]
#[kani::stub(crate::layer_2::get_authorized_eth_addr, auth_stub)]
fn c02_eth_ipv4() {
    eth_case(Some(0x0800), 20, 24)
}

//# harness: c02_eth_ipv6
//# props: C02 C03 C04 C01
//# tier: quick
//# encodes: layer_2::reply
//# encodes: pnet_packet::ipv4::checksum
//# bounds: 14-byte Ethernet header fully symbolic (both MACs), EtherType 0x86dd (IPv6), 40 payload bytes; layer-3/ARP reply of 40 arbitrary bytes or silence; configured MAC symbolic; membership of the destination MAC in the authorised set arbitrary
//# stubs: layer_2::arp::repl, layer_3::ipv4::repl, layer_3::ipv6::repl -> None or a packet of 40 arbitrary bytes (IPv4: version 4, IHL >= 5 with the header inside the packet - lemma c04_ipv4_*)
//# stubs: layer_2::get_authorized_eth_addr -> set with arbitrary membership of this frame's destination (the real set is decided by c02_auth_*)
//# out: 802.1Q tags
//# cover: frame emitted
//# cover: dropped: foreign destination MAC
#[kani::proof]
#[kani::unwind(46)]
#[kani::stub(crate::layer_2::arp::repl, crate::verif_util::l3_arp_stub)]
#[kani::stub(crate::layer_3::ipv4::repl, crate::verif_util::l3_ipv4_stub)]
#[kani::stub(crate::layer_3::ipv6::repl, crate::verif_util::l3_ipv6_stub)]
#[kani::stub(crate::layer_2::get_authorized_eth_addr, auth_stub)]
fn c02_eth_ipv6() {
    eth_case(Some(0x86dd), 40, 40)
}

//# harness: c02_eth_arp
//# props: C02 C03 C01
//# tier: quick
//# encodes: layer_2::reply
//# encodes: pnet_packet::ipv4::checksum
//# bounds: 14-byte Ethernet header fully symbolic (both MACs), EtherType 0x0806 (ARP), 28 payload bytes; layer-3/ARP reply of 28 arbitrary bytes or silence; configured MAC symbolic; membership of the destination MAC in the authorised set arbitrary
//# stubs: layer_2::arp::repl, layer_3::ipv4::repl, layer_3::ipv6::repl -> None or a packet of 28 arbitrary bytes (IPv4: version 4, IHL >= 5 with the header inside the packet - lemma c04_ipv4_*)
//# stubs: layer_2::get_authorized_eth_addr -> set with arbitrary membership of this frame's destination (the real set is decided by c02_auth_*)
//# out: 802.1Q tags
//# cover: frame emitted
//# cover: dropped: foreign destination MAC
#[kani::proof]
#[kani::unwind(34)]
#[kani::stub(crate::layer_2::arp::repl, crate::verif_util::l3_arp_stub)]
#[kani::stub(crate::layer_3::ipv4::repl, crate::verif_util::l3_ipv4_stub)]
#[kani::stub(crate::layer_3::ipv6::repl, crate::verif_util::l3_ipv6_stub)]
#[kani::stub(crate::layer_2::get_authorized_eth_addr, auth_stub)]
fn c02_eth_arp() {
    eth_case(Some(0x0806), 28, 28)
}

//# harness: c02_eth_other
//# props: C02 C01
//# tier: quick
//# encodes: layer_2::reply
//# encodes: pnet_packet::ipv4::checksum
//# bounds: 14-byte Ethernet header fully symbolic (both MACs), EtherType symbolic over all values except ARP/IPv4/IPv6, 4 payload bytes; layer-3/ARP reply of 8 arbitrary bytes or silence; configured MAC symbolic; membership of the destination MAC in the authorised set arbitrary
//# stubs: layer_2::arp::repl, layer_3::ipv4::repl, layer_3::ipv6::repl -> None or a packet of 8 arbitrary bytes (IPv4: version 4, IHL >= 5 with the header inside the packet - lemma c04_ipv4_*)
//# stubs: layer_2::get_authorized_eth_addr -> set with arbitrary membership of this frame's destination (the real set is decided by c02_auth_*)
//# out: 802.1Q tags
//# cover: dropped: unsupported EtherType
#[kani::proof]
#[kani::unwind(14)]
#[kani::stub(crate::layer_2::arp::repl, crate::verif_util::l3_arp_stub)]
#[kani::stub(crate::layer_3::ipv4::repl, crate::verif_util::l3_ipv4_stub)]
#[kani::stub(crate::layer_3::ipv6::repl, crate::verif_util::l3_ipv6_stub)]
#[kani::stub(crate::layer_2::get_authorized_eth_addr, auth_stub)]
fn c02_eth_other() {
    eth_case(None, 4, 8)
}

//# harness: c01_eth_ipv4_short
//# props: C01
//# tier: quick
//# encodes: layer_2::reply
//# encodes: pnet_packet::ipv4::checksum
//# bounds: 14-byte Ethernet header fully symbolic (both MACs), EtherType 0x0800 (IPv4), 19 payload bytes; layer-3/ARP reply of 20 arbitrary bytes or silence; configured MAC symbolic; membership of the destination MAC in the authorised set arbitrary
//# stubs: layer_2::arp::repl, layer_3::ipv4::repl, layer_3::ipv6::repl -> None or a packet of 20 arbitrary bytes (IPv4: version 4, IHL >= 5 with the header inside the packet - lemma c04_ipv4_*)
//# stubs: layer_2::get_authorized_eth_addr -> set with arbitrary membership of this frame's destination (the real set is decided by c02_auth_*)
//# out: 802.1Q tags
//# cover: layer-3 header too short
#[kani::proof]
#[kani::unwind(26)]
#[kani::stub(crate::layer_2::arp::repl, crate::verif_util::l3_arp_stub)]
#[kani::stub(crate::layer_3::ipv4::repl, crate::verif_util::l3_ipv4_stub)]
#[kani::stub(crate::layer_3::ipv6::repl, crate::verif_util::l3_ipv6_stub)]
#[kani::stub(crate::layer_2::get_authorized_eth_addr, auth_stub)]
fn c01_eth_ipv4_short() {
    eth_case(Some(0x0800), 19, 20)
}

//# harness: c01_eth_ipv6_short
//# props: C01
//# tier: thorough
//# encodes: layer_2::reply
//# encodes: pnet_packet::ipv4::checksum
//# bounds: 14-byte Ethernet header fully symbolic (both MACs), EtherType 0x86dd (IPv6), 39 payload bytes; layer-3/ARP reply of 40 arbitrary bytes or silence; configured MAC symbolic; membership of the destination MAC in the authorised set arbitrary
//# stubs: layer_2::arp::repl, layer_3::ipv4::repl, layer_3::ipv6::repl -> None or a packet of 40 arbitrary bytes (IPv4: version 4, IHL >= 5 with the header inside the packet - lemma c04_ipv4_*)
//# stubs: layer_2::get_authorized_eth_addr -> set with arbitrary membership of this frame's destination (the real set is decided by c02_auth_*)
//# out: 802.1Q tags
//# cover: layer-3 header too short
#[kani::proof]
#[kani::unwind(46)]
#[kani::stub(crate::layer_2::arp::repl, crate::verif_util::l3_arp_stub)]
#[kani::stub(crate::layer_3::ipv4::repl, crate::verif_util::l3_ipv4_stub)]
#[kani::stub(crate::layer_3::ipv6::repl, crate::verif_util::l3_ipv6_stub)]
#[kani::stub(crate::layer_2::get_authorized_eth_addr, auth_stub)]
fn c01_eth_ipv6_short() {
    eth_case(Some(0x86dd), 39, 40)
}

//# harness: c01_eth_arp_short
//# props: C01
//# tier: thorough
//# encodes: layer_2::reply
//# encodes: pnet_packet::ipv4::checksum
//# bounds: 14-byte Ethernet header fully symbolic (both MACs), EtherType 0x0806 (ARP), 27 payload bytes; layer-3/ARP reply of 28 arbitrary bytes or silence; configured MAC symbolic; membership of the destination MAC in the authorised set arbitrary
//# stubs: layer_2::arp::repl, layer_3::ipv4::repl, layer_3::ipv6::repl -> None or a packet of 28 arbitrary bytes (IPv4: version 4, IHL >= 5 with the header inside the packet - lemma c04_ipv4_*)
//# stubs: layer_2::get_authorized_eth_addr -> set with arbitrary membership of this frame's destination (the real set is decided by c02_auth_*)
//# out: 802.1Q tags
//# cover: layer-3 header too short
#[kani::proof]
#[kani::unwind(34)]
#[kani::stub(crate::layer_2::arp::repl, crate::verif_util::l3_arp_stub)]
#[kani::stub(crate::layer_3::ipv4::repl, crate::verif_util::l3_ipv4_stub)]
#[kani::stub(crate::layer_3::ipv6::repl, crate::verif_util::l3_ipv6_stub)]
#[kani::stub(crate::layer_2::get_authorized_eth_addr, auth_stub)]
fn c01_eth_arp_short() {
    eth_case(Some(0x0806), 27, 28)
}

//# harness: c01_eth_empty
//# props: C01
//# tier: thorough
//# encodes: layer_2::reply
//# encodes: pnet_packet::ipv4::checksum
//# bounds: 14-byte Ethernet header fully symbolic (both MACs), EtherType 0x0800 (IPv4), 0 payload bytes; layer-3/ARP reply of 20 arbitrary bytes or silence; configured MAC symbolic; membership of the destination MAC in the authorised set arbitrary
//# stubs: layer_2::arp::repl, layer_3::ipv4::repl, layer_3::ipv6::repl -> None or a packet of 20 arbitrary bytes (IPv4: version 4, IHL >= 5 with the header inside the packet - lemma c04_ipv4_*)
//# stubs: layer_2::get_authorized_eth_addr -> set with arbitrary membership of this frame's destination (the real set is decided by c02_auth_*)
//# out: 802.1Q tags
//# cover: layer-3 header too short
#[kani::proof]
#[kani::unwind(26)]
#[kani::stub(crate::layer_2::arp::repl, crate::verif_util::l3_arp_stub)]
#[kani::stub(crate::layer_3::ipv4::repl, crate::verif_util::l3_ipv4_stub)]
#[kani::stub(crate::layer_3::ipv6::repl, crate::verif_util::l3_ipv6_stub)]
#[kani::stub(crate::layer_2::get_authorized_eth_addr, auth_stub)]
fn c01_eth_empty() {
    eth_case(Some(0x0800), 0, 20)
}

/// the real authorised-address set as a membership function of an arbitrary destination MAC.
/// which: 0 = no self-IP list, 1 = {a4}, 2 = {a6}  (a list holding BOTH an IPv4 and an IPv6
/// address makes CBMC run out of memory - measured: 300 s without result, against 4 s for
/// each single-address list; every address contributes its MAC independently in a uniform
/// loop body)
fn auth_lemma(which: u8, mac0: u8) {
    let mut mac_b: [u8; 6] = kani::any();
    // first octet concrete per instance: it keeps the SHAPE of the set concrete (the inserted
    // addresses are then distinct by a concrete byte), the other five octets stay symbolic
    mac_b[0] = mac0;
    let d: [u8; 6] = kani::any();
    let a4: [u8; 4] = kani::any();
    let a6: [u8; 16] = kani::any();
    let mut s_set = HashSet::new();
    if which == 1 {
        s_set.insert(IpAddr::V4(Ipv4Addr::from(a4)));
    }
    if which == 2 {
        s_set.insert(IpAddr::V6(Ipv6Addr::from(a6)));
    }
    let mac = MacAddr::from(mac_b);
    let set = get_authorized_eth_addr(&mac, if which != 0 { Some(&s_set) } else { None });
    let got = set.contains(&MacAddr::from(d));
    let base = d == mac_b || d == [0xff; 6] || d == [0x33, 0x33, 0, 0, 0, 1];
    let want = match which {
        1 => base || d == [0x01, 0x00, 0x5e, a4[1] & 0x7f, a4[2], a4[3]],
        2 => base || d == [0x33, 0x33, 0xff, a6[13], a6[14], a6[15]],
        _ => base,
    };
    assert!(got == want, "C02: authorised destination MAC set differs from {own, broadcast, all-nodes, multicast MACs derived from the handled addresses}");
    kani::cover!(got && d[0] == 0x01, "IPv4-derived multicast MAC authorised");
    kani::cover!(got && d[2] == 0xff && d[0] == 0x33, "solicited-node multicast MAC authorised");
    kani::cover!(!got, "foreign MAC not authorised");
    kani::cover!(got && d[0] == 0xff, "broadcast authorised");
}

//# harness: c02_auth_v4
//# props: C02 C01@thorough
//# tier: quick
//# encodes: layer_2::get_authorized_eth_addr
//# bounds: configured MAC 02:xx:xx:xx:xx:xx (five octets symbolic), destination MAC fully symbolic, self-IP list = {a4} with all address bytes symbolic
//# stubs: <MacAddr as FromStr>::from_str -> straight-line decoder for the fixed literal 33:33:00:00:00:01
//# out: self-IP lists with more than one address (each address contributes one MAC independently: the loop body is uniform)
//# cover: IPv4-derived multicast MAC authorised
//# cover: foreign MAC not authorised
//# cover: broadcast authorised
#[kani::proof]
#[kani::unwind(20)]
#[kani::stub(<pnet::util::MacAddr as std::str::FromStr>::from_str, crate::verif_util::mac_from_str_stub)]
fn c02_auth_v4() {
    auth_lemma(1, 0x02)
}

//# harness: c02_auth_v6
//# props: C02 C01@thorough
//# tier: quick
//# encodes: layer_2::get_authorized_eth_addr
//# bounds: configured MAC 02:xx:xx:xx:xx:xx (five octets symbolic), destination MAC fully symbolic, self-IP list = {a6} with all address bytes symbolic
//# stubs: <MacAddr as FromStr>::from_str -> straight-line decoder for the fixed literal 33:33:00:00:00:01
//# out: self-IP lists with more than one address (each address contributes one MAC independently: the loop body is uniform)
//# cover: solicited-node multicast MAC authorised
//# cover: foreign MAC not authorised
#[kani::proof]
#[kani::unwind(20)]
#[kani::stub(<pnet::util::MacAddr as std::str::FromStr>::from_str, crate::verif_util::mac_from_str_stub)]
fn c02_auth_v6() {
    auth_lemma(2, 0x02)
}

//# harness: c02_auth_none
//# props: C02 C01@thorough
//# tier: quick
//# encodes: layer_2::get_authorized_eth_addr
//# bounds: configured MAC c0:xx:xx:xx:xx:xx (five octets symbolic), destination MAC fully symbolic, no self-IP list
//# stubs: <MacAddr as FromStr>::from_str -> straight-line decoder for the fixed literal 33:33:00:00:00:01
//# out: self-IP lists with more than one address (each address contributes one MAC independently: the loop body is uniform)
//# cover: foreign MAC not authorised
//# cover: broadcast authorised
#[kani::proof]
#[kani::unwind(20)]
#[kani::stub(<pnet::util::MacAddr as std::str::FromStr>::from_str, crate::verif_util::mac_from_str_stub)]
fn c02_auth_none() {
    auth_lemma(0, 0xc0)
}

//# harness: c02_auth_v4_mac00
//# props: C02 C01@thorough
//# tier: thorough
//# encodes: layer_2::get_authorized_eth_addr
//# bounds: configured MAC 00:xx:xx:xx:xx:xx (five octets symbolic), destination MAC fully symbolic, self-IP list = {a4}
//# stubs: <MacAddr as FromStr>::from_str -> straight-line decoder for the fixed literal 33:33:00:00:00:01
//# out: self-IP lists with more than one address (each address contributes one MAC independently: the loop body is uniform)
//# cover: IPv4-derived multicast MAC authorised
#[kani::proof]
#[kani::unwind(20)]
#[kani::stub(<pnet::util::MacAddr as std::str::FromStr>::from_str, crate::verif_util::mac_from_str_stub)]
fn c02_auth_v4_mac00() {
    auth_lemma(1, 0x00)
}

//# harness: c02_auth_v6_macfe
//# props: C02 C01@thorough
//# tier: thorough
//# encodes: layer_2::get_authorized_eth_addr
//# bounds: configured MAC fe:xx:xx:xx:xx:xx (five octets symbolic), destination MAC fully symbolic, self-IP list = {a6}
//# stubs: <MacAddr as FromStr>::from_str -> straight-line decoder for the fixed literal 33:33:00:00:00:01
//# out: self-IP lists with more than one address (each address contributes one MAC independently: the loop body is uniform)
//# cover: solicited-node multicast MAC authorised
#[kani::proof]
#[kani::unwind(20)]
#[kani::stub(<pnet::util::MacAddr as std::str::FromStr>::from_str, crate::verif_util::mac_from_str_stub)]
fn c02_auth_v6_macfe() {
    auth_lemma(2, 0xfe)
}

fn eth_events(et: Option<u16>, m: usize, n: usize) {
    let mut buf: [u8; 14 + 40] = kani::any();
    match et {
        Some(t) => {
            buf[12] = (t >> 8) as u8;
            buf[13] = t as u8;
        }
        None => {
            let t = (buf[12] as u16) << 8 | buf[13] as u16;
            kani::assume(t != 0x0806 && t != 0x0800 && t != 0x86dd);
        }
    }
    let eth_req = EthernetPacket::new(&buf[..14 + m]).unwrap();
    let masscanned = ms_counting([0, 0], any_mac());
    l4_rec().cfg_len = n;
    let mut d = [0u8; 6];
    d.copy_from_slice(&buf[0..6]);
    let auth: bool = kani::any();
    unsafe {
        AUTH_CFG = (auth, d, 0);
    }
    let mut ci = ClientInfo::new();
    let r = reply(&eth_req, &masscanned, &mut ci);
    assert!(balanced(L_ETH, r.is_some()), "C20: Ethernet layer did not log exactly one recv and one terminal event (send iff a frame is emitted)");
    let shown = ev(L_ETH).ci_recv.unwrap();
    assert!(shown.mac.src == Some(eth_req.get_source()) && shown.mac.dst == Some(eth_req.get_destination()), "C20: MAC addresses shown to the logger are not the frame's");
    if l4_rec().calls == 1 {
        assert!(l4_rec().seq_at_call > ev(L_ETH).seq_recv && l4_rec().seq_at_call < ev(L_ETH).seq_term, "C20: inner layer not nested inside the Ethernet events");
    }
    kani::cover!(r.is_some(), "frame emitted");
    kani::cover!(r.is_none() && l4_rec().calls == 0, "dropped before layer 3");
}

//# harness: c20_eth_events_ipv4
//# props: C20
//# tier: quick
//# encodes: layer_2::reply
//# encodes: logger::MetaLogger::{eth_recv,eth_send,eth_drop}
//# bounds: 14-byte Ethernet header symbolic, EtherType IPv4, 20 payload bytes; layer-3 reply of 20 bytes or silence; destination authorised or not
//# stubs: layer_2::arp::repl, layer_3::ipv4::repl, layer_3::ipv6::repl -> contract stubs recording the event sequence number; get_authorized_eth_addr -> arbitrary membership
//# cover: frame emitted
//# cover: dropped before layer 3
#[kani::proof]
#[kani::unwind(30)]
#[kani::stub(crate::layer_2::arp::repl, crate::verif_util::l3_arp_stub)]
#[kani::stub(crate::layer_3::ipv4::repl, crate::verif_util::l3_ipv4_stub)]
#[kani::stub(crate::layer_3::ipv6::repl, crate::verif_util::l3_ipv6_stub)]
#[kani::stub(crate::layer_2::get_authorized_eth_addr, auth_stub)]
fn c20_eth_events_ipv4() {
    eth_events(Some(0x0800), 20, 20)
}

//# harness: c20_eth_events_other
//# props: C20
//# tier: thorough
//# encodes: layer_2::reply
//# bounds: EtherType outside {ARP, IPv4, IPv6}, 4 payload bytes
//# stubs: as c20_eth_events_ipv4
//# cover: dropped before layer 3
#[kani::proof]
#[kani::unwind(30)]
#[kani::stub(crate::layer_2::arp::repl, crate::verif_util::l3_arp_stub)]
#[kani::stub(crate::layer_3::ipv4::repl, crate::verif_util::l3_ipv4_stub)]
#[kani::stub(crate::layer_3::ipv6::repl, crate::verif_util::l3_ipv6_stub)]
#[kani::stub(crate::layer_2::get_authorized_eth_addr, auth_stub)]
fn c20_eth_events_other() {
    eth_events(None, 4, 8)
}

