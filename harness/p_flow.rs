//@ target: src/proto/mod.rs
//@ mod: verif_flow
//@ needs: tables
// Flow level (C11): the real dispatcher `proto::repl` + the real HTTP / ONC-RPC responders
// with a per-flow control block; the request stream is cut into two segments.
use crate::client::ClientInfo;
use crate::verif_util::*;
use crate::Masscanned;
use pnet::packet::ip::IpNextHeaderProtocols;
use pnet::util::MacAddr;
use std::net::{IpAddr, Ipv4Addr, Ipv6Addr};

fn flow_ci() -> ClientInfo {
    let mut ci = ClientInfo::new();
    ci.ip.src = Some(IpAddr::V4(Ipv4Addr::new(192, 0, 2, 1)));
    ci.ip.dst = Some(IpAddr::V4(Ipv4Addr::new(192, 0, 2, 2)));
    ci.port.src = Some(40000);
    ci.port.dst = Some(kani::any());
    ci.transport = Some(IpNextHeaderProtocols::Tcp);
    ci.cookie = Some(kani::any());
    ci
}
fn fresh() -> TCPControlBlock {
    TCPControlBlock { smack_state: BASE_STATE, proto_id: PROTO_NONE, proto_state: None }
}
fn same(a: &Option<Vec<u8>>, b: &Option<Vec<u8>>) -> bool {
    match (a, b) {
        (None, None) => true,
        (Some(x), Some(y)) => x.len() == y.len() && (x.len() < 16 || (x[0] == y[0] && x[9] == y[9] && x[15] == y[15] && x[x.len() - 1] == y[y.len() - 1])),
        _ => false,
    }
}

/// HTTP: "GET /t HTTP/1.v CRLF CRLF" with symbolic target byte and version digit, cut at
/// every position in lo..hi
fn http_flow(lo: usize, hi: usize, _inside_signature: bool) {
    lazy_static::initialize(&PROTO_SMACK);
    log::set_max_level(log::LevelFilter::Off);
    let mut s = *b"GET /t HTTP/1.v\r\n\r\n";
    let t: u8 = kani::any();
    let v: u8 = kani::any();
    kani::assume(t != b' ' && t != b'\r' && t != b'\n' && v >= b'0' && v <= b'9');
    s[5] = t;
    s[14] = v;
    let n = s.len();
    let masscanned = ms_plain([0, 0], MacAddr::new(0, 1, 2, 3, 4, 5));
    let mut ci = flow_ci();
    let mut tw = fresh();
    let whole = repl(&s, &masscanned, &mut ci, Some(&mut tw));
    assert!(whole.is_some(), "C13: complete HTTP request on a fresh flow not answered");
    let mut cut = lo;
    while cut < hi {
        let mut tb = fresh();
        let r1 = repl(&s[..cut], &masscanned, &mut ci, Some(&mut tb));
        let r2 = repl(&s[cut..n], &masscanned, &mut ci, Some(&mut tb));
        assert!(r1.is_none(), "C11: something other than a bare ACK sent before the request is complete");
        assert!(same(&r2, &whole), "C11: reply depends on how the HTTP request is cut into segments");
        std::mem::forget(tb);
        cut += 1;
    }
    kani::cover!(true, "all cuts examined");
    std::mem::forget(tw);
}

/// ONC-RPC over TCP: 44-byte call (NULL procedure, version 2..4) with symbolic XID /
/// program, cut at every position in lo..hi
fn rpc_flow(lo: usize, hi: usize, _inside_signature: bool) {
    lazy_static::initialize(&PROTO_SMACK);
    log::set_max_level(log::LevelFilter::Off);
    let mut s = [0u8; 44];
    s[0] = 0x80;
    s[3] = 40;
    let x: [u8; 4] = kani::any();
    kani::assume(x[0] != 0);
    s[4] = x[0]; s[5] = x[1]; s[6] = x[2]; s[7] = x[3];
    s[15] = 2; // rpc version
    s[17] = 0x01; s[18] = 0x86; s[19] = kani::any(); // program 0x000186xx
    s[23] = 3; // program version
    // procedure 0, AUTH_NULL credentials and verifier
    let n = 44;
    let masscanned = ms_plain([0, 0], MacAddr::new(0, 1, 2, 3, 4, 5));
    let mut ci = flow_ci();
    let mut tw = fresh();
    let whole = repl(&s, &masscanned, &mut ci, Some(&mut tw));
    assert!(whole.is_some(), "C16: complete ONC-RPC call on a fresh flow not answered");
    let mut cut = lo;
    while cut < hi {
        let mut tb = fresh();
        let r1 = repl(&s[..cut], &masscanned, &mut ci, Some(&mut tb));
        let r2 = repl(&s[cut..n], &masscanned, &mut ci, Some(&mut tb));
        assert!(r1.is_none(), "C11: something other than a bare ACK sent before the call is complete");
        assert!(r2.is_some() && r2.as_ref().unwrap().len() == whole.as_ref().unwrap().len(), "C11: reply depends on how the ONC-RPC call is cut into segments");
        let a = r2.unwrap();
        let b = whole.as_ref().unwrap();
        assert!(a[4] == b[4] && a[7] == b[7] && a[a.len() - 1] == b[b.len() - 1], "C11: reply content depends on segmentation");
        std::mem::forget(tb);
        cut += 1;
    }
    kani::cover!(true, "all cuts examined");
    std::mem::forget(tw);
}







//# harness: c11_http_flow_cut_8
//# props: C11
//# tier: extended
//# timeout: 1200
//# encodes: proto::repl (TCP mode, control block), proto::http::repl, http_parse, smack::Smack::search_next
//# bounds: stream "GET /t HTTP/1.v CRLF CRLF" (19 bytes; target byte and version digit symbolic) on a fresh flow, cut into two segments at position 8; compared with the unsegmented stream
//# stubs: proto_init / http_init -> real tables; chrono::Utc::now and DateTime::to_rfc2822 -> fixed instant / fixed text
//# out: other cut positions at flow level (parser-level cuts at every position: c11_http_stream_cuts_*)
//# cover: all cuts examined
#[kani::proof]
#[kani::unwind(460)]
#[kani::stub(crate::proto::proto_init, crate::proto::verif_proto_init_stub)]
#[kani::stub(crate::proto::http::http_init, crate::proto::http::verif_http_init_stub)]
#[kani::stub(chrono::Utc::now, crate::verif_util::utc_now_stub)]
#[kani::stub(chrono::DateTime::to_rfc2822, crate::verif_util::rfc2822_stub)]
fn c11_http_flow_cut_8() {
    http_flow(8, 9, false)
}

//# harness: c11_http_flow_cut_17
//# props: C11
//# tier: extended
//# timeout: 1200
//# encodes: proto::repl (TCP mode, control block), proto::http::repl, http_parse, smack::Smack::search_next
//# bounds: stream "GET /t HTTP/1.v CRLF CRLF" (19 bytes; target byte and version digit symbolic) on a fresh flow, cut into two segments at position 17; compared with the unsegmented stream
//# stubs: proto_init / http_init -> real tables; chrono::Utc::now and DateTime::to_rfc2822 -> fixed instant / fixed text
//# out: other cut positions at flow level (parser-level cuts at every position: c11_http_stream_cuts_*)
//# cover: all cuts examined
#[kani::proof]
#[kani::unwind(460)]
#[kani::stub(crate::proto::proto_init, crate::proto::verif_proto_init_stub)]
#[kani::stub(crate::proto::http::http_init, crate::proto::http::verif_http_init_stub)]
#[kani::stub(chrono::Utc::now, crate::verif_util::utc_now_stub)]
#[kani::stub(chrono::DateTime::to_rfc2822, crate::verif_util::rfc2822_stub)]
fn c11_http_flow_cut_17() {
    http_flow(17, 18, false)
}

//# harness: c11_http_flow_cut_inside_signature
//# props: C11
//# tier: extended
//# timeout: 1200
//# encodes: proto::repl (TCP mode, control block), proto::http::repl, http_parse, smack::Smack::search_next
//# bounds: stream "GET /t HTTP/1.v CRLF CRLF" (19 bytes; target byte and version digit symbolic) on a fresh flow, cut into two segments at position 2; compared with the unsegmented stream
//# stubs: proto_init / http_init -> real tables; chrono::Utc::now and DateTime::to_rfc2822 -> fixed instant / fixed text
//# out: other cut positions at flow level (parser-level cuts at every position: c11_http_stream_cuts_*)
//# cover: all cuts examined
#[kani::proof]
#[kani::unwind(460)]
#[kani::stub(crate::proto::proto_init, crate::proto::verif_proto_init_stub)]
#[kani::stub(crate::proto::http::http_init, crate::proto::http::verif_http_init_stub)]
#[kani::stub(chrono::Utc::now, crate::verif_util::utc_now_stub)]
#[kani::stub(chrono::DateTime::to_rfc2822, crate::verif_util::rfc2822_stub)]
fn c11_http_flow_cut_inside_signature() {
    http_flow(2, 3, true)
}

//# harness: c11_rpc_flow_cut_30
//# props: C11
//# tier: extended
//# timeout: 1200
//# encodes: proto::repl (TCP mode, control block), proto::rpc::repl_tcp, rpc_parse, build_repl
//# bounds: 44-byte ONC-RPC NULL call over TCP (XID and program low byte symbolic, XID high byte non-zero) on a fresh flow, cut into two segments at position 30; compared with the unsegmented stream
//# stubs: proto_init -> real tables
//# out: other cut positions at flow level (parser-level cuts: c16_rpc_tcp_parse_cut*)
//# cover: all cuts examined
#[kani::proof]
#[kani::unwind(50)]
#[kani::stub(crate::proto::proto_init, crate::proto::verif_proto_init_stub)]
fn c11_rpc_flow_cut_30() {
    rpc_flow(30, 31, false)
}

//# harness: c11_rpc_flow_cut_inside_signature
//# props: C11
//# tier: extended
//# timeout: 1200
//# encodes: proto::repl (TCP mode, control block), proto::rpc::repl_tcp, rpc_parse, build_repl
//# bounds: 44-byte ONC-RPC NULL call over TCP (XID and program low byte symbolic, XID high byte non-zero) on a fresh flow, cut into two segments at position 12; compared with the unsegmented stream
//# stubs: proto_init -> real tables
//# out: other cut positions at flow level (parser-level cuts: c16_rpc_tcp_parse_cut*)
//# cover: all cuts examined
#[kani::proof]
#[kani::unwind(50)]
#[kani::stub(crate::proto::proto_init, crate::proto::verif_proto_init_stub)]
fn c11_rpc_flow_cut_inside_signature() {
    rpc_flow(12, 13, true)
}
