//@ target: src/proto/dns/mod.rs
//@ mod: verif_dns
// The real DNS responder: `DNSPacket::try_from` (byte-wise parser) + `DNSPacket::repl`
// (C14, C12 QR bit, C01).
use crate::client::ClientInfo;
use crate::verif_util::*;
use crate::Masscanned;
use pnet::util::MacAddr;
use std::convert::TryFrom;
use std::net::{IpAddr, Ipv4Addr, Ipv6Addr};

fn dns_ci(dst: Ipv4Addr) -> ClientInfo {
    let mut ci = ClientInfo::new();
    ci.ip.src = Some(IpAddr::V4(any_ip4()));
    ci.ip.dst = Some(IpAddr::V4(dst));
    ci.port.src = Some(kani::any());
    ci.port.dst = Some(kani::any());
    ci
}

fn run(data: &[u8], ci: &ClientInfo) -> Option<Vec<u8>> {
    let masscanned = ms_plain([0, 0], MacAddr::new(0, 1, 2, 3, 4, 5));
    match DNSPacket::try_from(data.to_vec()) {
        Ok(dns) => dns.repl(&masscanned, ci, None),
        Err(_) => None,
    }
}

/// One-question query: header (id, flags symbolic; QD=1, AN=NS=AR=0) + name of `nl` bytes
/// (non-zero label bytes symbolic, then the root byte) + type + class, all symbolic.
fn dns_one_question(nl: usize) {
    let mut d: [u8; 12 + 6 + 4] = kani::any();
    d[4] = 0; d[5] = 1;
    d[6] = 0; d[7] = 0; d[8] = 0; d[9] = 0; d[10] = 0; d[11] = 0;
    let mut i = 0;
    while i < nl {
        kani::assume(d[12 + i] != 0);
        i += 1;
    }
    d[12 + nl] = 0;
    let n = 12 + nl + 1 + 4;
    let qtype = (d[n - 4] as u16) << 8 | d[n - 3] as u16;
    let qclass = (d[n - 2] as u16) << 8 | d[n - 1] as u16;
    let dst: [u8; 4] = kani::any();
    let ci = dns_ci(Ipv4Addr::from(dst));
    let qr = d[2] & 0x80 != 0;
    let r = run(&d[..n], &ci);
    let in_a = qtype == 1 && qclass == 1;
    if qr {
        if crate::verif_known::C12_DNS_RESPONSE_ANSWERED {
            kani::cover!(r.is_some(), "KF:c12.dns_response_answered");
        } else {
            assert!(r.is_none(), "C12: DNS message with QR=1 answered");
        }
        return;
    }
    let v = match r {
        Some(v) => v,
        None => {
            assert!(!in_a, "C14: IN/A query not answered");
            kani::cover!(true, "non IN/A question not answered");
            return;
        }
    };
    assert!(in_a, "C14: question that is not IN/A answered");
    let ql = nl + 1 + 4;
    assert!(v.len() == 12 + ql + (nl + 1) + 10 + 4, "C14: response is not header + question + one A record");
    assert!(v[0] == d[0] && v[1] == d[1], "C14: ID not echoed");
    assert!(v[2] & 0x80 != 0, "C14: QR not set in the response");
    assert!(v[2] & 0x78 == d[2] & 0x78, "C14: opcode not echoed");
    assert!(v[2] & 0x01 == d[2] & 0x01, "C14: RD not echoed");
    assert!(v[4] == 0 && v[5] == 1 && v[6] == 0 && v[7] == 1, "C14: QDCOUNT/ANCOUNT do not match the records present");
    assert!(v[8] == 0 && v[9] == 0 && v[10] == 0 && v[11] == 0, "C14: NSCOUNT/ARCOUNT do not match the records present");
    let j: usize = kani::any();
    kani::assume(j < ql);
    assert!(v[12 + j] == d[12 + j], "C14: question section not echoed byte-for-byte");
    let a = 12 + ql;
    let k: usize = kani::any();
    kani::assume(k < nl + 1);
    assert!(v[a + k] == d[12 + k], "C14: answer is not owned by the queried name");
    let t = a + nl + 1;
    assert!(v[t] == 0 && v[t + 1] == 1 && v[t + 2] == 0 && v[t + 3] == 1, "C14: answer is not an IN/A record");
    assert!(v[t + 8] == 0 && v[t + 9] == 4, "C14: RDLENGTH is not 4");
    let m: usize = kani::any();
    kani::assume(m < 4);
    assert!(v[t + 10 + m] == dst[m], "C14: RDATA is not the address the query was sent to");
    kani::cover!(true, "IN/A query answered");
}

/// two questions, one-byte names (root + 1 label byte handled by nl in {0,1})
fn dns_two_questions() {
    let mut d: [u8; 12 + 5 + 6] = kani::any();
    d[4] = 0; d[5] = 2;
    d[6] = 0; d[7] = 0; d[8] = 0; d[9] = 0; d[10] = 0; d[11] = 0;
    // question 1: root name; question 2: one non-zero byte + root
    d[12] = 0;
    kani::assume(d[17] != 0);
    d[18] = 0;
    kani::assume(d[2] & 0x80 == 0);
    let t1 = (d[13] as u16) << 8 | d[14] as u16;
    let c1 = (d[15] as u16) << 8 | d[16] as u16;
    let t2 = (d[19] as u16) << 8 | d[20] as u16;
    let c2 = (d[21] as u16) << 8 | d[22] as u16;
    let dst: [u8; 4] = kani::any();
    let ci = dns_ci(Ipv4Addr::from(dst));
    let r = run(&d[..23], &ci);
    let all_in_a = t1 == 1 && c1 == 1 && t2 == 1 && c2 == 1;
    match r {
        Some(v) => {
            assert!(all_in_a, "C14: message containing a question that is not IN/A answered");
            assert!(v.len() == 12 + 5 + 6 + (1 + 14) + (2 + 14), "C14: response is not header + 2 questions + 2 A records");
            assert!(v[4] == 0 && v[5] == 2 && v[6] == 0 && v[7] == 2, "C14: QDCOUNT/ANCOUNT do not match the records present");
            let j: usize = kani::any();
            kani::assume(j < 11);
            assert!(v[12 + j] == d[12 + j], "C14: question section not echoed in order");
            assert!(v[23] == 0, "C14: first answer not owned by the first name");
            assert!(v[38] == d[17] && v[39] == 0, "C14: second answer not owned by the second name");
            assert!(v[23 + 11] == dst[0] && v[23 + 14] == dst[3], "C14: first RDATA");
            assert!(v[40 + 10] == dst[0] && v[40 + 13] == dst[3], "C14: second RDATA");
            kani::cover!(true, "two questions answered");
        }
        None => {
            assert!(!all_in_a, "C14: two IN/A questions not answered");
            kani::cover!(true, "mixed questions not answered");
        }
    }
}

/// strict prefixes of a one-question IN/A query are not answered; neither is a header
/// announcing more questions than present
fn dns_truncated(cut: usize) {
    let mut d: [u8; 19] = kani::any();
    d[2] &= 0x7f;
    d[4] = 0; d[5] = 1;
    d[6] = 0; d[7] = 0; d[8] = 0; d[9] = 0; d[10] = 0; d[11] = 0;
    kani::assume(d[12] != 0 && d[13] != 0);
    d[14] = 0;
    d[15] = 0; d[16] = 1; d[17] = 0; d[18] = 1;
    let ci = dns_ci(any_ip4());
    let r = run(&d[..cut], &ci);
    assert!(r.is_none(), "C14: truncated DNS message answered");
    kani::cover!(true, "truncated message ignored");
}

//# harness: c14_dns_one_question_2
//# props: C14 C12 C01 C19
//# tier: quick
//# encodes: proto::dns::DNSPacket::{try_from,parse,repl}, DNSHeader::{parse,repl}, DNSQuery::{parse,repl}, DNSRR (From/TryFrom)
//# bounds: ID and flag word fully symbolic (QR, opcode, AA, TC, RD, RA, Z, RCODE), QDCOUNT=1, AN/NS/AR=0; name of 2 non-zero bytes + root; QTYPE and QCLASS fully symbolic (65536 x 65536); destination address symbolic
//# known: c12.dns_response_answered
//# out: names longer than 4 bytes (the name scanner is a NUL-terminated byte loop without length arithmetic); label bytes equal to 0 / compression pointers; IPv6 transport
//# cover: IN/A query answered
//# cover: non IN/A question not answered
#[kani::proof]
#[kani::unwind(60)]
fn c14_dns_one_question_2() {
    dns_one_question(2)
}

//# harness: c14_dns_one_question_0
//# props: C14 C12
//# tier: thorough
//# encodes: proto::dns::DNSPacket::{try_from,parse,repl}, DNSHeader::{parse,repl}, DNSQuery::{parse,repl}, DNSRR (From/TryFrom)
//# bounds: ID and flag word fully symbolic (QR, opcode, AA, TC, RD, RA, Z, RCODE), QDCOUNT=1, AN/NS/AR=0; name of 0 non-zero bytes + root; QTYPE and QCLASS fully symbolic (65536 x 65536); destination address symbolic
//# known: c12.dns_response_answered
//# out: names longer than 4 bytes (the name scanner is a NUL-terminated byte loop without length arithmetic); label bytes equal to 0 / compression pointers; IPv6 transport
//# cover: IN/A query answered
//# cover: non IN/A question not answered
#[kani::proof]
#[kani::unwind(60)]
fn c14_dns_one_question_0() {
    dns_one_question(0)
}

//# harness: c14_dns_one_question_4
//# props: C14 C12
//# tier: thorough
//# encodes: proto::dns::DNSPacket::{try_from,parse,repl}, DNSHeader::{parse,repl}, DNSQuery::{parse,repl}, DNSRR (From/TryFrom)
//# bounds: ID and flag word fully symbolic (QR, opcode, AA, TC, RD, RA, Z, RCODE), QDCOUNT=1, AN/NS/AR=0; name of 4 non-zero bytes + root; QTYPE and QCLASS fully symbolic (65536 x 65536); destination address symbolic
//# known: c12.dns_response_answered
//# out: names longer than 4 bytes (the name scanner is a NUL-terminated byte loop without length arithmetic); label bytes equal to 0 / compression pointers; IPv6 transport
//# cover: IN/A query answered
//# cover: non IN/A question not answered
#[kani::proof]
#[kani::unwind(60)]
fn c14_dns_one_question_4() {
    dns_one_question(4)
}

//# harness: c14_dns_two_questions
//# props: C14 C01
//# tier: quick
//# encodes: proto::dns::DNSPacket::{try_from,parse,repl}
//# bounds: QDCOUNT=2 with names "." and "<1 byte>."; both QTYPE/QCLASS pairs fully symbolic; ID/flags (QR=0) symbolic
//# out: QDCOUNT > 2
//# cover: two questions answered
//# cover: mixed questions not answered
#[kani::proof]
#[kani::unwind(70)]
fn c14_dns_two_questions() {
    dns_two_questions()
}

//# harness: c14_dns_truncated_18
//# props: C14 C01
//# tier: quick
//# encodes: proto::dns::DNSPacket::try_from
//# bounds: the first 18 bytes of a 19-byte one-question IN/A query with symbolic ID, flags and 2-byte name
//# cover: truncated message ignored
#[kani::proof]
#[kani::unwind(40)]
fn c14_dns_truncated_18() {
    dns_truncated(18)
}

//# harness: c14_dns_truncated_12
//# props: C14 C01
//# tier: thorough
//# encodes: proto::dns::DNSPacket::try_from
//# bounds: the first 12 bytes of a 19-byte one-question IN/A query with symbolic ID, flags and 2-byte name
//# cover: truncated message ignored
#[kani::proof]
#[kani::unwind(40)]
fn c14_dns_truncated_12() {
    dns_truncated(12)
}

//# harness: c14_dns_truncated_15
//# props: C14 C01
//# tier: thorough
//# encodes: proto::dns::DNSPacket::try_from
//# bounds: the first 15 bytes of a 19-byte one-question IN/A query with symbolic ID, flags and 2-byte name
//# cover: truncated message ignored
#[kani::proof]
#[kani::unwind(40)]
fn c14_dns_truncated_15() {
    dns_truncated(15)
}

//# harness: c14_dns_truncated_5
//# props: C14 C01
//# tier: thorough
//# encodes: proto::dns::DNSPacket::try_from
//# bounds: the first 5 bytes of a 19-byte one-question IN/A query with symbolic ID, flags and 2-byte name
//# cover: truncated message ignored
#[kani::proof]
#[kani::unwind(40)]
fn c14_dns_truncated_5() {
    dns_truncated(5)
}
