//@ target: src/proto/dns/mod.rs
//@ mod: verif_dns
// The real DNS responder: `DNSPacket::try_from` (byte-wise parser) + `DNSPacket::repl`
// (C14, C12 QR bit, C01).
use crate::client::ClientInfo;
use crate::verif_util::*;
use crate::Masscanned;
use pnet::util::MacAddr;
use std::convert::TryFrom;
use crate::proto::dns::cst::{DNSClass, DNSType};
use std::net::{IpAddr, Ipv4Addr, Ipv6Addr};

fn dns_ci(dst: Ipv4Addr) -> ClientInfo {
    let mut ci = ClientInfo::new();
    ci.ip.src = Some(IpAddr::V4(any_ip4()));
    ci.ip.dst = Some(IpAddr::V4(dst));
    ci.port.src = Some(kani::any());
    ci.port.dst = Some(kani::any());
    ci
}

fn run(data: &[u8], ci: &ClientInfo) -> Option<Vec<u8>> {
    let masscanned = ms_plain([0, 0], MacAddr::new(0, 1, 2, 3, 4, 5));
    match DNSPacket::try_from(data.to_vec()) {
        Ok(dns) => dns.repl(&masscanned, ci, None),
        Err(_) => None,
    }
}

/// One-question query: header (id, flags symbolic; QD=1, AN=NS=AR=0) + name of `nl` bytes
/// (concrete label bytes, then the root byte) + type + class, all symbolic.
fn dns_one_question(nl: usize) {
    let mut d: [u8; 12 + 6 + 4] = kani::any();
    d[4] = 0; d[5] = 1;
    d[6] = 0; d[7] = 0; d[8] = 0; d[9] = 0; d[10] = 0; d[11] = 0;
    // name bytes are CONCRETE ('a', 'b', ..): they drive the parser's control flow (NUL
    // terminates the name); symbolic non-zero bytes made CBMC explore every split of the
    // message into name / type / class (measured: no result in 400 s)
    let mut i = 0;
    while i < nl {
        d[12 + i] = b'a' + i as u8;
        i += 1;
    }
    d[12 + nl] = 0;
    let n = 12 + nl + 1 + 4;
    let qtype = (d[n - 4] as u16) << 8 | d[n - 3] as u16;
    let qclass = (d[n - 2] as u16) << 8 | d[n - 1] as u16;
    let dst: [u8; 4] = kani::any();
    let ci = dns_ci(Ipv4Addr::from(dst));
    let qr = d[2] & 0x80 != 0;
    let r = run(&d[..n], &ci);
    let in_a = qtype == 1 && qclass == 1;
    if qr {
        if crate::verif_known::C12_DNS_RESPONSE_ANSWERED {
            kani::cover!(r.is_some(), "KF:c12.dns_response_answered");
        } else {
            assert!(r.is_none(), "C12: DNS message with QR=1 answered");
        }
        return;
    }
    let v = match r {
        Some(v) => v,
        None => {
            assert!(!in_a, "C14: IN/A query not answered");
            kani::cover!(true, "non IN/A question not answered");
            return;
        }
    };
    assert!(in_a, "C14: question that is not IN/A answered");
    let ql = nl + 1 + 4;
    assert!(v.len() == 12 + ql + (nl + 1) + 10 + 4, "C14: response is not header + question + one A record");
    assert!(v[0] == d[0] && v[1] == d[1], "C14: ID not echoed");
    assert!(v[2] & 0x80 != 0, "C14: QR not set in the response");
    assert!(v[2] & 0x78 == d[2] & 0x78, "C14: opcode not echoed");
    assert!(v[2] & 0x01 == d[2] & 0x01, "C14: RD not echoed");
    assert!(v[4] == 0 && v[5] == 1 && v[6] == 0 && v[7] == 1, "C14: QDCOUNT/ANCOUNT do not match the records present");
    assert!(v[8] == 0 && v[9] == 0 && v[10] == 0 && v[11] == 0, "C14: NSCOUNT/ARCOUNT do not match the records present");
    let j: usize = kani::any();
    kani::assume(j < ql);
    assert!(v[12 + j] == d[12 + j], "C14: question section not echoed byte-for-byte");
    let a = 12 + ql;
    let k: usize = kani::any();
    kani::assume(k < nl + 1);
    assert!(v[a + k] == d[12 + k], "C14: answer is not owned by the queried name");
    let t = a + nl + 1;
    assert!(v[t] == 0 && v[t + 1] == 1 && v[t + 2] == 0 && v[t + 3] == 1, "C14: answer is not an IN/A record");
    assert!(v[t + 8] == 0 && v[t + 9] == 4, "C14: RDLENGTH is not 4");
    let m: usize = kani::any();
    kani::assume(m < 4);
    assert!(v[t + 10 + m] == dst[m], "C14: RDATA is not the address the query was sent to");
    kani::cover!(true, "IN/A query answered");
}

/// two questions, one-byte names (root + 1 label byte handled by nl in {0,1})
fn dns_two_questions() {
    let mut d: [u8; 12 + 5 + 6] = kani::any();
    d[4] = 0; d[5] = 2;
    d[6] = 0; d[7] = 0; d[8] = 0; d[9] = 0; d[10] = 0; d[11] = 0;
    // question 1: root name; question 2: one non-zero byte + root
    d[12] = 0;
    d[17] = b'b';
    d[18] = 0;
    kani::assume(d[2] & 0x80 == 0);
    let t1 = (d[13] as u16) << 8 | d[14] as u16;
    let c1 = (d[15] as u16) << 8 | d[16] as u16;
    let t2 = (d[19] as u16) << 8 | d[20] as u16;
    let c2 = (d[21] as u16) << 8 | d[22] as u16;
    let dst: [u8; 4] = kani::any();
    let ci = dns_ci(Ipv4Addr::from(dst));
    let r = run(&d[..23], &ci);
    let all_in_a = t1 == 1 && c1 == 1 && t2 == 1 && c2 == 1;
    match r {
        Some(v) => {
            assert!(all_in_a, "C14: message containing a question that is not IN/A answered");
            assert!(v.len() == 12 + 5 + 6 + (1 + 14) + (2 + 14), "C14: response is not header + 2 questions + 2 A records");
            assert!(v[4] == 0 && v[5] == 2 && v[6] == 0 && v[7] == 2, "C14: QDCOUNT/ANCOUNT do not match the records present");
            let j: usize = kani::any();
            kani::assume(j < 11);
            assert!(v[12 + j] == d[12 + j], "C14: question section not echoed in order");
            assert!(v[23] == 0, "C14: first answer not owned by the first name");
            assert!(v[38] == d[17] && v[39] == 0, "C14: second answer not owned by the second name");
            assert!(v[23 + 11] == dst[0] && v[23 + 14] == dst[3], "C14: first RDATA");
            assert!(v[40 + 10] == dst[0] && v[40 + 13] == dst[3], "C14: second RDATA");
            kani::cover!(true, "two questions answered");
        }
        None => {
            assert!(!all_in_a, "C14: two IN/A questions not answered");
            kani::cover!(true, "mixed questions not answered");
        }
    }
}

/// strict prefixes of a one-question IN/A query are not answered; neither is a header
/// announcing more questions than present
fn dns_truncated(cut: usize) {
    let mut d: [u8; 19] = kani::any();
    d[2] &= 0x7f;
    d[4] = 0; d[5] = 1;
    d[6] = 0; d[7] = 0; d[8] = 0; d[9] = 0; d[10] = 0; d[11] = 0;
    d[12] = b'a';
    d[13] = b'b';
    d[14] = 0;
    d[15] = 0; d[16] = 1; d[17] = 0; d[18] = 1;
    let ci = dns_ci(any_ip4());
    let r = run(&d[..cut], &ci);
    assert!(r.is_none(), "C14: truncated DNS message answered");
    kani::cover!(true, "truncated message ignored");
}






//# harness: c14_dns_truncated_12
//# props: C14 C01
//# tier: thorough
//# encodes: proto::dns::DNSPacket::try_from
//# bounds: the first 12 bytes of a 19-byte one-question IN/A query with symbolic ID, flags and 2-byte name
//# cover: truncated message ignored
#[kani::proof]
#[kani::unwind(40)]
fn c14_dns_truncated_12() {
    dns_truncated(12)
}


//# harness: c14_dns_truncated_5
//# props: C14 C01
//# tier: thorough
//# encodes: proto::dns::DNSPacket::try_from
//# bounds: the first 5 bytes of a 19-byte one-question IN/A query with symbolic ID, flags and 2-byte name
//# cover: truncated message ignored
#[kani::proof]
#[kani::unwind(40)]
fn c14_dns_truncated_5() {
    dns_truncated(5)
}

// ------------------------------------------------------------------------------------------
// Component lemmas (the whole-message harnesses above are out of CBMC's reach beyond a
// header: measured 227k symex steps for 13 CONCRETE bytes, no result for 19 bytes).  The
// responder is a composition of three independent pieces, each decided on the real code:
//   DNSHeader::{parse,repl} + Vec::from(&DNSHeader)      -> response header
//   DNSQuery::{parse,repl} + Vec::from(&DNSRR)            -> question echo + answer record
//   DNSPacket::repl (assembly, QR gate)                    -> sections in order, counts
// ------------------------------------------------------------------------------------------
fn dns_header_lemma() {
    let d: [u8; 12] = kani::any();
    let hdr = match DNSHeader::try_from(d.to_vec()) {
        Ok(h) => h,
        Err(_) => { assert!(false, "C14: 12-byte DNS header not parsed"); return; }
    };
    assert!(hdr.id == (d[0] as u16) << 8 | d[1] as u16 && hdr.flags == (d[2] as u16) << 8 | d[3] as u16, "C14: header ID / flags misparsed");
    assert!(hdr.qdcount == (d[4] as u16) << 8 | d[5] as u16 && hdr.ancount == (d[6] as u16) << 8 | d[7] as u16, "C14: header counts misparsed");
    assert!(hdr._qr == (d[2] & 0x80 != 0), "C12: QR bit misparsed");
    let masscanned = ms_plain([0, 0], MacAddr::new(0, 1, 2, 3, 4, 5));
    let ci = dns_ci(any_ip4());
    let v = hdr.repl(&masscanned, &ci, None).unwrap();
    assert!(v.len() == 12, "C14: response header is not 12 bytes");
    assert!(v[0] == d[0] && v[1] == d[1], "C14: ID not echoed");
    assert!(v[2] & 0x80 != 0, "C14: QR not set in the response");
    assert!(v[2] & 0x78 == d[2] & 0x78, "C14: opcode not echoed");
    assert!(v[2] & 0x01 == d[2] & 0x01, "C14: RD not echoed");
    assert!(v[2] & 0x02 == 0, "C14: TC set in the response");
    assert!(v[4] == d[4] && v[5] == d[5] && v[6] == d[4] && v[7] == d[5], "C14: QDCOUNT / ANCOUNT are not the number of questions");
    assert!(v[8] == 0 && v[9] == 0 && v[10] == 0 && v[11] == 0, "C14: NSCOUNT / ARCOUNT not zero");
    kani::cover!(d[2] & 0x40 != 0, "opcode with the high bit set");
    kani::cover!(true, "header answered");
    std::mem::forget(hdr);
}

/// question with a concrete name ("ab."), QTYPE / QCLASS fully symbolic
fn dns_query_lemma() {
    let mut q: [u8; 7] = kani::any();
    q[0] = b'a'; q[1] = b'b'; q[2] = 0;
    let query = match DNSQuery::try_from(q.to_vec()) {
        Ok(x) => x,
        Err(_) => { assert!(false, "C14: complete question not parsed"); return; }
    };
    let back = Vec::<u8>::from(&query);
    let qtype = (q[3] as u16) << 8 | q[4] as u16;
    let qclass = (q[5] as u16) << 8 | q[6] as u16;
    let in_a = qtype == 1 && qclass == 1;
    let dst: [u8; 4] = kani::any();
    let ci = dns_ci(Ipv4Addr::from(dst));
    let masscanned = ms_plain([0, 0], MacAddr::new(0, 1, 2, 3, 4, 5));
    let r = query.repl(&masscanned, &ci, None);
    match r {
        Some(rr) => {
            assert!(in_a, "C14: question that is not IN/A answered");
            assert!(back.len() == 7 && back[0] == q[0] && back[2] == 0 && back[3] == 0 && back[4] == 1 && back[5] == 0 && back[6] == 1, "C14: IN/A question not echoed byte-for-byte");
            assert!(rr.len() == 3 + 10 + 4, "C14: answer record is not name + 10 fixed bytes + 4 address bytes");
            assert!(rr[0] == b'a' && rr[1] == b'b' && rr[2] == 0, "C14: answer not owned by the queried name");
            assert!(rr[3] == 0 && rr[4] == 1 && rr[5] == 0 && rr[6] == 1, "C14: answer is not an IN/A record");
            assert!(rr[11] == 0 && rr[12] == 4, "C14: RDLENGTH is not 4");
            assert!(rr[13] == dst[0] && rr[14] == dst[1] && rr[15] == dst[2] && rr[16] == dst[3], "C14: RDATA is not the address the query was sent to");
            kani::cover!(true, "IN/A question answered");
        }
        None => {
            assert!(!in_a, "C14: IN/A question not answered");
            kani::cover!(true, "other question not answered");
        }
    }
    std::mem::forget(query);
}

/// assembly: a parsed message object with header from 12 symbolic bytes and `nq` IN/A or
/// non-IN/A questions built directly in their End state
fn dns_assembly(nq: usize) {
    let mut h: [u8; 12] = kani::any();
    h[4] = 0; h[5] = nq as u8;
    let header = DNSHeader::try_from(h.to_vec()).unwrap();
    let mut pkt = DNSPacket::new();
    pkt.header = header;
    pkt.d.state = DNSState::End;
    let t1: bool = kani::any();
    let t2: bool = kani::any();
    let mut all_in_a = true;
    let mut k = 0;
    while k < nq {
        let good = if k == 0 { t1 } else { t2 };
        let mut q = DNSQuery::new();
        q.name.push(b'a' + k as u8);
        q.name.push(0);
        q.type_ = if good { DNSType::A } else { DNSType::TXT };
        q.class = DNSClass::IN;
        q.d.state = DNSQueryState::End;
        if !good {
            all_in_a = false;
        }
        pkt.qd.push(q);
        k += 1;
    }
    let dst: [u8; 4] = kani::any();
    let ci = dns_ci(Ipv4Addr::from(dst));
    let masscanned = ms_plain([0, 0], MacAddr::new(0, 1, 2, 3, 4, 5));
    let r = pkt.repl(&masscanned, &ci, None);
    let qr = h[2] & 0x80 != 0;
    if qr {
        if crate::verif_known::C12_DNS_RESPONSE_ANSWERED {
            kani::cover!(r.is_some(), "KF:c12.dns_response_answered");
        } else {
            assert!(r.is_none(), "C12: DNS message with QR=1 answered");
        }
        std::mem::forget(pkt);
        return;
    }
    match r {
        Some(v) => {
            assert!(all_in_a, "C14: message containing a question that is not IN/A answered");
            assert!(v.len() == 12 + nq * 6 + nq * 16, "C14: response is not header + questions + one A record per question");
            assert!(v[5] as usize == nq && v[7] as usize == nq, "C14: section counts do not match the records present");
            if nq >= 1 {
                assert!(v[12] == b'a' && v[13] == 0 && v[15] == 1 && v[17] == 1, "C14: first question not echoed in place");
            }
            if nq == 2 {
                assert!(v[18] == b'b' && v[19] == 0, "C14: second question not echoed in order");
                assert!(v[24] == b'a' && v[40] == b'b', "C14: answers not in question order / not owned by the queried names");
                assert!(v[36] == dst[0] && v[39] == dst[3] && v[52] == dst[0] && v[55] == dst[3], "C14: RDATA is not the address the query was sent to");
            }
            kani::cover!(true, "message answered");
        }
        None => {
            assert!(!all_in_a, "C14: message with only IN/A questions not answered");
            kani::cover!(true, "message with a non IN/A question not answered");
        }
    }
    std::mem::forget(pkt);
}

//# harness: c14_dns_header
//# props: C14 C12 C01 C19
//# tier: quick
//# encodes: proto::dns::header::DNSHeader::{parse,repl}, TryFrom<Vec<u8>>, From<&DNSHeader> for Vec<u8>
//# bounds: 12 fully symbolic header bytes (ID, all 16 flag bits, four counts)
//# cover: opcode with the high bit set
//# cover: header answered
#[kani::proof]
#[kani::unwind(16)]
fn c14_dns_header() {
    dns_header_lemma()
}

//# harness: c14_dns_question
//# props: C14 C01 C19
//# tier: quick
//# encodes: proto::dns::query::DNSQuery::{parse,repl}, From<&DNSQuery>, proto::dns::rr::DNSRR (From), cst::{DNSType,DNSClass}
//# bounds: question "ab." (concrete name: it drives the parser) with QTYPE and QCLASS fully symbolic (65536 x 65536); destination address symbolic
//# out: other names (NUL-terminated byte loop without length arithmetic); IPv6 transport
//# cover: IN/A question answered
//# cover: other question not answered
#[kani::proof]
#[kani::unwind(24)]
fn c14_dns_question() {
    dns_query_lemma()
}

//# harness: c14_dns_assembly_1
//# props: C14 C12 C01
//# tier: extended
//# timeout: 1400
//# encodes: proto::dns::DNSPacket::repl (assembly of header, echoed questions and answers), DNSHeader::repl, DNSQuery::repl, DNSRR
//# bounds: header from 12 symbolic bytes (QDCOUNT = 1); 1 question(s) with one-byte names built directly in their parsed state, each IN/A or IN/TXT (symbolic choice); destination address symbolic
//# known: c12.dns_response_answered
//# out: QDCOUNT > 2; the byte-wise message parser beyond the header (decided for short messages by c14_dns_truncated_*)
//# cover: message answered
//# cover: message with a non IN/A question not answered
#[kani::proof]
#[kani::unwind(40)]
fn c14_dns_assembly_1() {
    dns_assembly(1)
}

//# harness: c14_dns_assembly_2
//# props: C14 C12 C01
//# tier: extended
//# timeout: 1400
//# encodes: proto::dns::DNSPacket::repl (assembly of header, echoed questions and answers), DNSHeader::repl, DNSQuery::repl, DNSRR
//# bounds: header from 12 symbolic bytes (QDCOUNT = 2); 2 question(s) with one-byte names built directly in their parsed state, each IN/A or IN/TXT (symbolic choice); destination address symbolic
//# known: c12.dns_response_answered
//# out: QDCOUNT > 2; the byte-wise message parser beyond the header (decided for short messages by c14_dns_truncated_*)
//# cover: message answered
//# cover: message with a non IN/A question not answered
#[kani::proof]
#[kani::unwind(40)]
fn c14_dns_assembly_2() {
    dns_assembly(2)
}

//# harness: c14_dns_assembly_0
//# props: C14 C12 C01
//# tier: quick
//# encodes: proto::dns::DNSPacket::repl (assembly of header, echoed questions and answers), DNSHeader::repl, DNSQuery::repl, DNSRR
//# bounds: header from 12 symbolic bytes (QDCOUNT = 0); 0 question(s) with one-byte names built directly in their parsed state, each IN/A or IN/TXT (symbolic choice); destination address symbolic
//# known: c12.dns_response_answered
//# out: QDCOUNT > 2; the byte-wise message parser beyond the header (decided for short messages by c14_dns_truncated_*)
//# cover: message answered
#[kani::proof]
#[kani::unwind(40)]
fn c14_dns_assembly_0() {
    dns_assembly(0)
}


// ---- assembly with concrete control (header flags, names, types concrete; ID and destination
// address symbolic): "exactly one answer per question, counts match the records present" for
// one and two questions, incl. the same name asked twice ----
fn dns_assembly_concrete(n0: u8, n1: u8, nq: usize) {
    let id: [u8; 2] = kani::any();
    let h: [u8; 12] = [id[0], id[1], 0x01, 0x00, 0, nq as u8, 0, 0, 0, 0, 0, 0];
    let header = DNSHeader::try_from(h.to_vec()).unwrap();
    let mut pkt = DNSPacket::new();
    pkt.header = header;
    pkt.d.state = DNSState::End;
    let mut k = 0;
    while k < nq {
        let mut q = DNSQuery::new();
        q.name.push(1);
        q.name.push(if k == 0 { n0 } else { n1 });
        q.name.push(0);
        q.type_ = DNSType::A;
        q.class = DNSClass::IN;
        q.d.state = DNSQueryState::End;
        pkt.qd.push(q);
        k += 1;
    }
    let dst: [u8; 4] = kani::any();
    let ci = dns_ci(Ipv4Addr::from(dst));
    let masscanned = ms_plain([0, 0], MacAddr::new(0, 1, 2, 3, 4, 5));
    let v = match pkt.repl(&masscanned, &ci, None) {
        Some(v) => v,
        None => {
            assert!(false, "C14: query with only IN/A questions not answered");
            return;
        }
    };
    // header(12) + nq questions (3 name + 4) + nq answers (3 name + 10 + 4 rdata)
    assert!(v[0] == id[0] && v[1] == id[1] && v[2] & 0x80 != 0, "C14: ID not echoed / QR not set");
    assert!(v[5] as usize == nq && v[7] as usize == nq && v[4] == 0 && v[6] == 0, "C14: QDCOUNT / ANCOUNT do not equal the number of questions");
    assert!(v.len() == 12 + nq * 7 + nq * 17, "C14: section counts do not match the records present (not exactly one answer per question)");
    let mut k = 0;
    while k < nq {
        let name = if k == 0 { n0 } else { n1 };
        let qo = 12 + 7 * k;
        assert!(v[qo] == 1 && v[qo + 1] == name && v[qo + 2] == 0 && v[qo + 4] == 1 && v[qo + 6] == 1, "C14: question not echoed in place");
        let ao = 12 + 7 * nq + 17 * k;
        assert!(v[ao] == 1 && v[ao + 1] == name && v[ao + 2] == 0, "C14: answer not owned by the queried name / not in question order");
        assert!(v[ao + 4] == 1 && v[ao + 6] == 1 && v[ao + 11] == 0 && v[ao + 12] == 4, "C14: answer is not an IN/A record with RDLENGTH 4");
        assert!(v[ao + 13] == dst[0] && v[ao + 14] == dst[1] && v[ao + 15] == dst[2] && v[ao + 16] == dst[3], "C14: RDATA is not the address the query was sent to");
        k += 1;
    }
    kani::cover!(true, "message answered");
    std::mem::forget(pkt);
}

//# harness: c14_dns_assembly_one
//# props: C14 C01
//# tier: extended
//# timeout: 3000
//# note: no result within 1500 s (measured): DNSPacket::repl serialises and re-parses every record byte by byte
//# encodes: proto::dns::DNSPacket::repl (assembly of header, echoed questions and answers), DNSHeader::repl, DNSQuery::repl, DNSRR, From<&DNSPacket> for Vec<u8>
//# bounds: one IN/A question for the one-byte name 'a'; header flags concrete (RD set), message ID and destination address symbolic, questions built directly in their parsed state
//# out: QDCOUNT > 2; names longer than one label of one byte; the byte-wise message parser beyond the header
//# cover: message answered
#[kani::proof]
#[kani::unwind(40)]
fn c14_dns_assembly_one() {
    dns_assembly_concrete(b'a', b'a', 1)
}

//# harness: c14_dns_assembly_two_distinct
//# props: C14 C01
//# tier: extended
//# timeout: 3000
//# note: no result within 1500 s (measured): DNSPacket::repl serialises and re-parses every record byte by byte
//# encodes: proto::dns::DNSPacket::repl (assembly of header, echoed questions and answers), DNSHeader::repl, DNSQuery::repl, DNSRR, From<&DNSPacket> for Vec<u8>
//# bounds: two IN/A questions for the names 'a' and 'b'; header flags concrete (RD set), message ID and destination address symbolic, questions built directly in their parsed state
//# out: QDCOUNT > 2; names longer than one label of one byte; the byte-wise message parser beyond the header
//# cover: message answered
#[kani::proof]
#[kani::unwind(40)]
fn c14_dns_assembly_two_distinct() {
    dns_assembly_concrete(b'a', b'b', 2)
}

//# harness: c14_dns_assembly_two_same
//# props: C14 C01
//# tier: extended
//# timeout: 3000
//# note: no result within 1500 s (measured): DNSPacket::repl serialises and re-parses every record byte by byte
//# encodes: proto::dns::DNSPacket::repl (assembly of header, echoed questions and answers), DNSHeader::repl, DNSQuery::repl, DNSRR, From<&DNSPacket> for Vec<u8>
//# bounds: two IN/A questions for the same name 'a'; header flags concrete (RD set), message ID and destination address symbolic, questions built directly in their parsed state
//# out: QDCOUNT > 2; names longer than one label of one byte; the byte-wise message parser beyond the header
//# cover: message answered
#[kani::proof]
#[kani::unwind(40)]
fn c14_dns_assembly_two_same() {
    dns_assembly_concrete(b'a', b'a', 2)
}
