//@ target: src/proto/ghost.rs
//@ mod: verif_ghost
// The real `ghost::repl` (input-independent): frame length arithmetic around the zlib body.
use crate::client::ClientInfo;
use crate::verif_util::*;
use pnet::util::MacAddr;

//# harness: c18_ghost_frame
//# props: C18
//# tier: thorough
//# timeout: 1400
//# encodes: proto::ghost::repl incl. flate2::write::ZlibEncoder (miniz_oxide) on the one-byte payload
//# bounds: the reply is input-independent; the harness executes the real encoder symbolically on concrete data and checks magic, declared total length = frame length, declared uncompressed length = 1, zlib header byte
//# out: that the deflate stream inflates to the declared byte (the inflater is not executed)
//# cover: ghost frame checked
#[kani::proof]
#[kani::unwind(70000)]
fn c18_ghost_frame() {
    let masscanned = ms_plain([0, 0], MacAddr::new(0, 1, 2, 3, 4, 5));
    let mut ci = ClientInfo::new();
    let r = repl(b"Gh0st\x00", &masscanned, &mut ci, None).unwrap();
    assert!(r.len() > 13 && &r[0..5] == b"Gh0st", "C18: Gh0st reply does not start with the magic");
    let total = r[5] as usize | (r[6] as usize) << 8 | (r[7] as usize) << 16 | (r[8] as usize) << 24;
    assert!(total == r.len(), "C18: declared total length differs from the frame length");
    let unc = r[9] as usize | (r[10] as usize) << 8 | (r[11] as usize) << 16 | (r[12] as usize) << 24;
    assert!(unc == 1, "C18: declared uncompressed length is not 1");
    assert!(r[13] & 0x0f == 8, "C18: body is not a zlib (deflate) stream");
    kani::cover!(true, "ghost frame checked");
}
