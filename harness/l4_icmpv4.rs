//@ target: src/layer_4/icmpv4.rs
//@ mod: verif_icmpv4
// The real `layer_4::icmpv4::repl`: echo request (type 8, code 0) -> echo reply with identical
// identifier, sequence number and data; every other (type, code) -> silence (C05, C12).
use crate::client::ClientInfo;
use crate::verif_util::*;
use crate::{proto, Masscanned};
use pnet::packet::icmp::{IcmpPacket, MutableIcmpPacket};
use pnet::packet::Packet;
use pnet::util::MacAddr;

fn icmp4_case(n: usize) {
    let buf: [u8; 16] = kani::any();
    let req = IcmpPacket::new(&buf[..n]).unwrap();
    let masscanned = ms_plain([0, 0], any_mac());
    let ci = ClientInfo::new();
    let q: u32 = kani::any();
    let before = proto::is_tcb_set(q);
    let r = repl(&req, &masscanned, &ci);
    assert!(proto::is_tcb_set(q) == before, "C09: ICMP changed the connection table");
    let is_echo = buf[0] == 8 && buf[1] == 0;
    match r {
        Some(p) => {
            assert!(is_echo, "C05/C12: ICMP message other than a code-0 echo request answered");
            let b = p.packet();
            assert!(b.len() == n, "C05: echo reply length differs from the request");
            assert!(b[0] == 0 && b[1] == 0, "C05: reply is not an echo reply (type 0, code 0)");
            let i: usize = kani::any();
            kani::assume(i >= 4 && i < n);
            assert!(b[i] == buf[i], "C05: identifier / sequence number / data not echoed");
            kani::cover!(true, "echo answered");
        }
        None => {
            assert!(!is_echo, "C05: code-0 echo request not answered");
            kani::cover!(buf[0] == 0, "C12 echo reply ignored");
            kani::cover!(buf[0] == 8 && buf[1] != 0, "echo with non-zero code ignored");
        }
    }
}

//# harness: c05_icmp4_echo_12
//# props: C05 C12 C09 C01
//# tier: quick
//# encodes: layer_4::icmpv4::repl
//# bounds: ICMP message of 12 bytes (4 header + identifier + sequence + 4 data bytes), type and code fully symbolic (all 65536 pairs), all other bytes symbolic
//# out: data longer than 4 bytes (set_payload is a uniform copy)
//# cover: echo answered
//# cover: C12 echo reply ignored
//# cover: echo with non-zero code ignored
#[kani::proof]
#[kani::unwind(20)]
fn c05_icmp4_echo_12() {
    icmp4_case(12)
}

//# harness: c05_icmp4_echo_4
//# props: C05 C12 C01
//# tier: quick
//# encodes: layer_4::icmpv4::repl
//# bounds: bare 4-byte ICMP header (no identifier/sequence/data), type and code symbolic
//# cover: C12 echo reply ignored
#[kani::proof]
#[kani::unwind(20)]
fn c05_icmp4_echo_4() {
    // with n = 4 there is no byte to compare; the reply must still be type 0 code 0, 4 bytes
    let buf: [u8; 4] = kani::any();
    let req = IcmpPacket::new(&buf[..]).unwrap();
    let masscanned = ms_plain([0, 0], any_mac());
    let ci = ClientInfo::new();
    let r = repl(&req, &masscanned, &ci);
    let is_echo = buf[0] == 8 && buf[1] == 0;
    match r {
        Some(p) => {
            assert!(is_echo, "C05/C12: ICMP message other than a code-0 echo request answered");
            assert!(p.packet().len() == 4 && p.packet()[0] == 0 && p.packet()[1] == 0, "C05: malformed echo reply");
        }
        None => {
            assert!(!is_echo, "C05: code-0 echo request not answered");
            kani::cover!(buf[0] == 0, "C12 echo reply ignored");
        }
    }
}

//# harness: c05_icmp4_echo_15
//# props: C05 C12
//# tier: thorough
//# encodes: layer_4::icmpv4::repl
//# bounds: ICMP message of 15 bytes (odd length), type and code symbolic
//# cover: echo answered
#[kani::proof]
#[kani::unwind(20)]
fn c05_icmp4_echo_15() {
    icmp4_case(15)
}

//# harness: c20_icmpv4_events
//# props: C20
//# tier: quick
//# encodes: layer_4::icmpv4::repl
//# encodes: logger::MetaLogger::{icmpv4_recv,icmpv4_send,icmpv4_drop}
//# bounds: 8-byte ICMP message, type/code/rest symbolic
//# cover: answered
//# cover: dropped
#[kani::proof]
#[kani::unwind(20)]
fn c20_icmpv4_events() {
    let buf: [u8; 8] = kani::any();
    let req = IcmpPacket::new(&buf[..]).unwrap();
    let masscanned = ms_counting([0, 0], any_mac());
    let ci = ClientInfo::new();
    let r = repl(&req, &masscanned, &ci);
    assert!(balanced(L_ICMPV4, r.is_some()), "C20: ICMPv4 layer did not log exactly one recv and one terminal event (send iff answered)");
    kani::cover!(r.is_some(), "answered");
    kani::cover!(r.is_none(), "dropped");
}
