//@ target: src/layer_3/ipv4.rs
//@ mod: verif_ipv4
// The real `layer_3::ipv4::repl` with the layer-4 entry points replaced by contract stubs
// (arbitrary transport packet of concrete length, or silence): scope filters (C02), address
// mirroring (C03), header well-formedness and transport checksums over the pseudo-header
// the RECEIVER would build from the emitted IPv4 header (C04).
use crate::client::ClientInfo;
use crate::verif_util::*;
use crate::Masscanned;
use pnet::packet::ipv4::{Ipv4Packet, MutableIpv4Packet};
use pnet::packet::Packet;
use pnet::util::MacAddr;
use crate::kshim::collections::HashSet;
use std::net::{IpAddr, Ipv4Addr, Ipv6Addr};

/// proto: Some(p) = concrete protocol number, None = arbitrary unsupported protocol.
/// m = request transport bytes, n = length of the transport packet the stub returns.
fn ipv4_case(proto: Option<u8>, m: usize, n: usize, lists: bool) {
    let mut buf: [u8; 44] = kani::any();
    // the request header is arbitrary (version, IHL, total length lying freely) except that
    // pnet must accept the 20-byte minimum: it only needs the buffer length
    match proto {
        Some(p) => buf[9] = p,
        None => kani::assume(buf[9] != 1 && buf[9] != 6 && buf[9] != 17),
    }
    let ip_req = Ipv4Packet::new(&buf[..20 + m]).unwrap();
    // configuration: self-IP list absent or {a4, a6}; deny list absent or {d4}
    let a4 = any_ip4();
    let a6 = any_ip6();
    let d4 = any_ip4();
    let _ = a6;
    let mut s_set = HashSet::new();
    s_set.insert(IpAddr::V4(a4));
    let mut d_set = HashSet::new();
    d_set.insert(IpAddr::V4(d4));
    // lists == false: the scope lists are absent (concretely), so that the well-formedness
    // instances do not pay for the container model; the filters have their own instances
    let s_on: bool = if lists { kani::any() } else { false };
    let d_on: bool = if lists { kani::any() } else { false };
    let mut masscanned = ms_plain([0, 0], any_mac());
    if s_on {
        masscanned.self_ip_list = Some(&s_set);
    }
    if d_on {
        masscanned.remote_ip_deny_list = Some(&d_set);
    }
    l4_rec().cfg_len = n;
    let mut ci = ClientInfo::new();
    let r = repl(&ip_req, &masscanned, &mut ci);
    let rec = l4_rec();
    let src = ip_req.get_source();
    let dst = ip_req.get_destination();
    let out_of_scope = s_on && dst != a4;
    let denied = d_on && src == d4;
    if out_of_scope || denied || proto.is_none() {
        assert!(r.is_none(), "C02: IPv4 packet outside scope (foreign destination, denied source or unsupported protocol) answered");
        assert!(rec.calls == 0, "C02: out-of-scope IPv4 packet reached layer 4");
        kani::cover!(out_of_scope, "dropped: destination not in self-IP list");
        kani::cover!(denied && !out_of_scope, "dropped: source on deny list");
        return;
    }
    // client_info handed upwards describes this packet
    assert!(ci.ip.src == Some(IpAddr::V4(src)) && ci.ip.dst == Some(IpAddr::V4(dst)), "C20: client_info addresses are not the packet's");
    let p = match r {
        Some(p) => p,
        None => {
            // silence is legitimate iff layer 4 was silent or the transport header did not parse
            assert!(rec.calls == 0 || !rec.some, "C03: layer-4 reply dropped by the IPv4 layer");
            kani::cover!(rec.calls == 1, "layer 4 silent");
            kani::cover!(rec.calls == 0, "transport header too short");
            return;
        }
    };
    assert!(rec.calls == 1 && rec.some, "C03: IPv4 reply without a layer-4 reply");
    let b = p.packet();
    assert!(b[0] >> 4 == 4, "C04: IP version is not 4");
    let ihl = (b[0] & 0x0f) as usize;
    assert!(ihl >= 5 && b.len() == 4 * ihl + n, "C04: IHL does not match the real header");
    assert!(((b[2] as usize) << 8 | b[3] as usize) == b.len(), "C04: total length is not the actual length");
    assert!(b[6] & 0x20 == 0 && (b[6] & 0x1f) == 0 && b[7] == 0, "C04: reply is a fragment");
    assert!(b[8] >= 1, "C04: TTL is zero");
    assert!(b[9] == buf[9], "C03: transport protocol not preserved");
    assert!(b[12] == buf[16] && b[13] == buf[17] && b[14] == buf[18] && b[15] == buf[19], "C03: reply source is not the request's destination");
    assert!(b[16] == buf[12] && b[17] == buf[13] && b[18] == buf[14] && b[19] == buf[15], "C03: reply destination is not the request's source");
    if s_on {
        assert!(p.get_source() == a4, "C02: reply source address outside the self-IP list");
    }
    let l4 = &b[4 * ihl..];
    // transport bytes are the stub's, except for the checksum word
    let i: usize = kani::any();
    kani::assume(i < n);
    let ck = match buf[9] {
        1 => 2,
        6 => 16,
        _ => 6,
    };
    if i != ck && i != ck + 1 && !(buf[9] == 17 && (i == 4 || i == 5)) {
        assert!(l4[i] == rec.bytes[i], "C03: transport bytes altered by the IPv4 layer");
    }
    if lists {
        kani::cover!(true, "reply emitted");
        return;
    }
    match buf[9] {
        1 => assert!(csum_ok(0, l4), "C04: ICMP checksum invalid"),
        6 => assert!(csum_ok(pseudo4(&b[12..16], &b[16..20], 6, n), l4), "C04: TCP checksum invalid over the IPv4 pseudo-header"),
        _ => {
            assert!(((l4[4] as usize) << 8 | l4[5] as usize) == n, "C04: UDP length is not the actual length");
            assert!(csum_ok(pseudo4(&b[12..16], &b[16..20], 17, n), l4), "C04: UDP checksum invalid over the IPv4 pseudo-header");
        }
    }
    kani::cover!(true, "reply emitted");
    kani::cover!(s_on && d_on, "reply with both lists configured");
}

//# harness: c04_ipv4_tcp_20
//# props: C04 C03 C01
//# tier: quick
//# encodes: layer_3::ipv4::repl
//# encodes: pnet_packet checksum helpers (icmp::checksum, tcp::ipv4_checksum, udp::ipv4_checksum)
//# bounds: 20-byte IPv4 request header fully symbolic (version, IHL, total length, flags, addresses may lie freely), protocol = TCP, 20 transport bytes in the request; layer-4 reply of 20 arbitrary bytes or silence; no self-IP list and no deny list (the scope filters are decided by c02_ipv4_scope_* and *_other_proto)
//# stubs: layer_4::{icmpv4,tcp,udp}::repl -> None or a transport packet of 20 arbitrary bytes (UDP: length field = 20, the lemma of c03_udp_*)
//# out: transport replies of other lengths (the checksum loop is uniform in the length; ip_len as u16 can only truncate above 65535 bytes); larger address sets (membership is the container contract)
//# cover: reply emitted
//# cover: layer 4 silent
#[kani::proof]
#[kani::unwind(26)]
#[kani::stub(crate::layer_4::icmpv4::repl, crate::verif_util::l4_icmpv4_stub)]
#[kani::stub(crate::layer_4::tcp::repl, crate::verif_util::l4_tcp_stub)]
#[kani::stub(crate::layer_4::udp::repl, crate::verif_util::l4_udp_stub)]
fn c04_ipv4_tcp_20() {
    ipv4_case(Some(6), 20, 20, false)
}

//# harness: c04_ipv4_tcp_23
//# props: C04 C03
//# tier: thorough
//# encodes: layer_3::ipv4::repl
//# encodes: pnet_packet checksum helpers (icmp::checksum, tcp::ipv4_checksum, udp::ipv4_checksum)
//# bounds: 20-byte IPv4 request header fully symbolic (version, IHL, total length, flags, addresses may lie freely), protocol = TCP, 21 transport bytes in the request; layer-4 reply of 23 arbitrary bytes or silence; no self-IP list and no deny list (the scope filters are decided by c02_ipv4_scope_* and *_other_proto)
//# stubs: layer_4::{icmpv4,tcp,udp}::repl -> None or a transport packet of 23 arbitrary bytes (UDP: length field = 23, the lemma of c03_udp_*)
//# out: transport replies of other lengths (the checksum loop is uniform in the length; ip_len as u16 can only truncate above 65535 bytes); larger address sets (membership is the container contract)
//# cover: reply emitted
#[kani::proof]
#[kani::unwind(29)]
#[kani::stub(crate::layer_4::icmpv4::repl, crate::verif_util::l4_icmpv4_stub)]
#[kani::stub(crate::layer_4::tcp::repl, crate::verif_util::l4_tcp_stub)]
#[kani::stub(crate::layer_4::udp::repl, crate::verif_util::l4_udp_stub)]
fn c04_ipv4_tcp_23() {
    ipv4_case(Some(6), 21, 23, false)
}

//# harness: c04_ipv4_udp_9
//# props: C04 C03 C01
//# tier: quick
//# encodes: layer_3::ipv4::repl
//# encodes: pnet_packet checksum helpers (icmp::checksum, tcp::ipv4_checksum, udp::ipv4_checksum)
//# bounds: 20-byte IPv4 request header fully symbolic (version, IHL, total length, flags, addresses may lie freely), protocol = UDP, 8 transport bytes in the request; layer-4 reply of 9 arbitrary bytes or silence; no self-IP list and no deny list (the scope filters are decided by c02_ipv4_scope_* and *_other_proto)
//# stubs: layer_4::{icmpv4,tcp,udp}::repl -> None or a transport packet of 9 arbitrary bytes (UDP: length field = 9, the lemma of c03_udp_*)
//# out: transport replies of other lengths (the checksum loop is uniform in the length; ip_len as u16 can only truncate above 65535 bytes); larger address sets (membership is the container contract)
//# cover: reply emitted
//# cover: layer 4 silent
#[kani::proof]
#[kani::unwind(15)]
#[kani::stub(crate::layer_4::icmpv4::repl, crate::verif_util::l4_icmpv4_stub)]
#[kani::stub(crate::layer_4::tcp::repl, crate::verif_util::l4_tcp_stub)]
#[kani::stub(crate::layer_4::udp::repl, crate::verif_util::l4_udp_stub)]
fn c04_ipv4_udp_9() {
    ipv4_case(Some(17), 8, 9, false)
}

//# harness: c04_ipv4_udp_12
//# props: C04 C03
//# tier: thorough
//# encodes: layer_3::ipv4::repl
//# encodes: pnet_packet checksum helpers (icmp::checksum, tcp::ipv4_checksum, udp::ipv4_checksum)
//# bounds: 20-byte IPv4 request header fully symbolic (version, IHL, total length, flags, addresses may lie freely), protocol = UDP, 10 transport bytes in the request; layer-4 reply of 12 arbitrary bytes or silence; no self-IP list and no deny list (the scope filters are decided by c02_ipv4_scope_* and *_other_proto)
//# stubs: layer_4::{icmpv4,tcp,udp}::repl -> None or a transport packet of 12 arbitrary bytes (UDP: length field = 12, the lemma of c03_udp_*)
//# out: transport replies of other lengths (the checksum loop is uniform in the length; ip_len as u16 can only truncate above 65535 bytes); larger address sets (membership is the container contract)
//# cover: reply emitted
#[kani::proof]
#[kani::unwind(18)]
#[kani::stub(crate::layer_4::icmpv4::repl, crate::verif_util::l4_icmpv4_stub)]
#[kani::stub(crate::layer_4::tcp::repl, crate::verif_util::l4_tcp_stub)]
#[kani::stub(crate::layer_4::udp::repl, crate::verif_util::l4_udp_stub)]
fn c04_ipv4_udp_12() {
    ipv4_case(Some(17), 10, 12, false)
}

//# harness: c04_ipv4_icmp_8
//# props: C04 C03 C01
//# tier: quick
//# encodes: layer_3::ipv4::repl
//# encodes: pnet_packet checksum helpers (icmp::checksum, tcp::ipv4_checksum, udp::ipv4_checksum)
//# bounds: 20-byte IPv4 request header fully symbolic (version, IHL, total length, flags, addresses may lie freely), protocol = ICMP, 8 transport bytes in the request; layer-4 reply of 8 arbitrary bytes or silence; no self-IP list and no deny list (the scope filters are decided by c02_ipv4_scope_* and *_other_proto)
//# stubs: layer_4::{icmpv4,tcp,udp}::repl -> None or a transport packet of 8 arbitrary bytes (UDP: length field = 8, the lemma of c03_udp_*)
//# out: transport replies of other lengths (the checksum loop is uniform in the length; ip_len as u16 can only truncate above 65535 bytes); larger address sets (membership is the container contract)
//# cover: reply emitted
//# cover: layer 4 silent
#[kani::proof]
#[kani::unwind(14)]
#[kani::stub(crate::layer_4::icmpv4::repl, crate::verif_util::l4_icmpv4_stub)]
#[kani::stub(crate::layer_4::tcp::repl, crate::verif_util::l4_tcp_stub)]
#[kani::stub(crate::layer_4::udp::repl, crate::verif_util::l4_udp_stub)]
fn c04_ipv4_icmp_8() {
    ipv4_case(Some(1), 8, 8, false)
}

//# harness: c04_ipv4_icmp_11
//# props: C04 C03
//# tier: thorough
//# encodes: layer_3::ipv4::repl
//# encodes: pnet_packet checksum helpers (icmp::checksum, tcp::ipv4_checksum, udp::ipv4_checksum)
//# bounds: 20-byte IPv4 request header fully symbolic (version, IHL, total length, flags, addresses may lie freely), protocol = ICMP, 5 transport bytes in the request; layer-4 reply of 11 arbitrary bytes or silence; no self-IP list and no deny list (the scope filters are decided by c02_ipv4_scope_* and *_other_proto)
//# stubs: layer_4::{icmpv4,tcp,udp}::repl -> None or a transport packet of 11 arbitrary bytes (UDP: length field = 11, the lemma of c03_udp_*)
//# out: transport replies of other lengths (the checksum loop is uniform in the length; ip_len as u16 can only truncate above 65535 bytes); larger address sets (membership is the container contract)
//# cover: reply emitted
#[kani::proof]
#[kani::unwind(17)]
#[kani::stub(crate::layer_4::icmpv4::repl, crate::verif_util::l4_icmpv4_stub)]
#[kani::stub(crate::layer_4::tcp::repl, crate::verif_util::l4_tcp_stub)]
#[kani::stub(crate::layer_4::udp::repl, crate::verif_util::l4_udp_stub)]
fn c04_ipv4_icmp_11() {
    ipv4_case(Some(1), 5, 11, false)
}

//# harness: c02_ipv4_other_proto
//# props: C02 C01
//# tier: quick
//# encodes: layer_3::ipv4::repl
//# encodes: pnet_packet checksum helpers (icmp::checksum, tcp::ipv4_checksum, udp::ipv4_checksum)
//# bounds: 20-byte IPv4 request header fully symbolic (version, IHL, total length, flags, addresses may lie freely), protocol = any protocol outside {1,6,17}, 4 transport bytes in the request; layer-4 reply of 8 arbitrary bytes or silence; self-IP list absent or {a4} symbolic; deny list absent or {d4} symbolic
//# stubs: layer_4::{icmpv4,tcp,udp}::repl -> None or a transport packet of 8 arbitrary bytes (UDP: length field = 8, the lemma of c03_udp_*)
//# out: transport replies of other lengths (the checksum loop is uniform in the length; ip_len as u16 can only truncate above 65535 bytes); larger address sets (membership is the container contract)

#[kani::proof]
#[kani::unwind(14)]
#[kani::stub(crate::layer_4::icmpv4::repl, crate::verif_util::l4_icmpv4_stub)]
#[kani::stub(crate::layer_4::tcp::repl, crate::verif_util::l4_tcp_stub)]
#[kani::stub(crate::layer_4::udp::repl, crate::verif_util::l4_udp_stub)]
fn c02_ipv4_other_proto() {
    ipv4_case(None, 4, 8, true)
}

//# harness: c01_ipv4_tcp_short
//# props: C01 C02@thorough
//# tier: quick
//# encodes: layer_3::ipv4::repl
//# encodes: pnet_packet checksum helpers (icmp::checksum, tcp::ipv4_checksum, udp::ipv4_checksum)
//# bounds: 20-byte IPv4 request header fully symbolic (version, IHL, total length, flags, addresses may lie freely), protocol = TCP, 19 transport bytes in the request; layer-4 reply of 20 arbitrary bytes or silence; self-IP list absent or {a4} symbolic; deny list absent or {d4} symbolic
//# stubs: layer_4::{icmpv4,tcp,udp}::repl -> None or a transport packet of 20 arbitrary bytes (UDP: length field = 20, the lemma of c03_udp_*)
//# out: transport replies of other lengths (the checksum loop is uniform in the length; ip_len as u16 can only truncate above 65535 bytes); larger address sets (membership is the container contract)
//# cover: transport header too short
#[kani::proof]
#[kani::unwind(26)]
#[kani::stub(crate::layer_4::icmpv4::repl, crate::verif_util::l4_icmpv4_stub)]
#[kani::stub(crate::layer_4::tcp::repl, crate::verif_util::l4_tcp_stub)]
#[kani::stub(crate::layer_4::udp::repl, crate::verif_util::l4_udp_stub)]
fn c01_ipv4_tcp_short() {
    ipv4_case(Some(6), 19, 20, true)
}

//# harness: c01_ipv4_udp_short
//# props: C01
//# tier: thorough
//# encodes: layer_3::ipv4::repl
//# encodes: pnet_packet checksum helpers (icmp::checksum, tcp::ipv4_checksum, udp::ipv4_checksum)
//# bounds: 20-byte IPv4 request header fully symbolic (version, IHL, total length, flags, addresses may lie freely), protocol = UDP, 7 transport bytes in the request; layer-4 reply of 8 arbitrary bytes or silence; self-IP list absent or {a4} symbolic; deny list absent or {d4} symbolic
//# stubs: layer_4::{icmpv4,tcp,udp}::repl -> None or a transport packet of 8 arbitrary bytes (UDP: length field = 8, the lemma of c03_udp_*)
//# out: transport replies of other lengths (the checksum loop is uniform in the length; ip_len as u16 can only truncate above 65535 bytes); larger address sets (membership is the container contract)
//# cover: transport header too short
#[kani::proof]
#[kani::unwind(14)]
#[kani::stub(crate::layer_4::icmpv4::repl, crate::verif_util::l4_icmpv4_stub)]
#[kani::stub(crate::layer_4::tcp::repl, crate::verif_util::l4_tcp_stub)]
#[kani::stub(crate::layer_4::udp::repl, crate::verif_util::l4_udp_stub)]
fn c01_ipv4_udp_short() {
    ipv4_case(Some(17), 7, 8, true)
}

//# harness: c01_ipv4_icmp_short
//# props: C01
//# tier: thorough
//# encodes: layer_3::ipv4::repl
//# encodes: pnet_packet checksum helpers (icmp::checksum, tcp::ipv4_checksum, udp::ipv4_checksum)
//# bounds: 20-byte IPv4 request header fully symbolic (version, IHL, total length, flags, addresses may lie freely), protocol = ICMP, 3 transport bytes in the request; layer-4 reply of 8 arbitrary bytes or silence; self-IP list absent or {a4} symbolic; deny list absent or {d4} symbolic
//# stubs: layer_4::{icmpv4,tcp,udp}::repl -> None or a transport packet of 8 arbitrary bytes (UDP: length field = 8, the lemma of c03_udp_*)
//# out: transport replies of other lengths (the checksum loop is uniform in the length; ip_len as u16 can only truncate above 65535 bytes); larger address sets (membership is the container contract)
//# cover: transport header too short
#[kani::proof]
#[kani::unwind(14)]
#[kani::stub(crate::layer_4::icmpv4::repl, crate::verif_util::l4_icmpv4_stub)]
#[kani::stub(crate::layer_4::tcp::repl, crate::verif_util::l4_tcp_stub)]
#[kani::stub(crate::layer_4::udp::repl, crate::verif_util::l4_udp_stub)]
fn c01_ipv4_icmp_short() {
    ipv4_case(Some(1), 3, 8, true)
}

//# harness: c01_ipv4_empty
//# props: C01
//# tier: thorough
//# encodes: layer_3::ipv4::repl
//# encodes: pnet_packet checksum helpers (icmp::checksum, tcp::ipv4_checksum, udp::ipv4_checksum)
//# bounds: 20-byte IPv4 request header fully symbolic (version, IHL, total length, flags, addresses may lie freely), protocol = TCP, 0 transport bytes in the request; layer-4 reply of 20 arbitrary bytes or silence; self-IP list absent or {a4} symbolic; deny list absent or {d4} symbolic
//# stubs: layer_4::{icmpv4,tcp,udp}::repl -> None or a transport packet of 20 arbitrary bytes (UDP: length field = 20, the lemma of c03_udp_*)
//# out: transport replies of other lengths (the checksum loop is uniform in the length; ip_len as u16 can only truncate above 65535 bytes); larger address sets (membership is the container contract)
//# cover: transport header too short
#[kani::proof]
#[kani::unwind(26)]
#[kani::stub(crate::layer_4::icmpv4::repl, crate::verif_util::l4_icmpv4_stub)]
#[kani::stub(crate::layer_4::tcp::repl, crate::verif_util::l4_tcp_stub)]
#[kani::stub(crate::layer_4::udp::repl, crate::verif_util::l4_udp_stub)]
fn c01_ipv4_empty() {
    ipv4_case(Some(6), 0, 20, true)
}

fn ipv4_events(proto: Option<u8>, m: usize, n: usize) {
    let mut buf: [u8; 44] = kani::any();
    match proto {
        Some(p) => buf[9] = p,
        None => kani::assume(buf[9] != 1 && buf[9] != 6 && buf[9] != 17),
    }
    let ip_req = Ipv4Packet::new(&buf[..20 + m]).unwrap();
    let a4 = any_ip4();
    let mut s_set = HashSet::new();
    s_set.insert(IpAddr::V4(a4));
    let s_on: bool = kani::any();
    let mut masscanned = ms_counting([0, 0], any_mac());
    if s_on {
        masscanned.self_ip_list = Some(&s_set);
    }
    l4_rec().cfg_len = n;
    let mut ci = ClientInfo::new();
    let r = repl(&ip_req, &masscanned, &mut ci);
    assert!(balanced(L_IPV4, r.is_some()), "C20: IPv4 layer did not log exactly one recv and one terminal event (send iff answered)");
    let shown = ev(L_IPV4).ci_recv.unwrap();
    assert!(shown.ip.src == Some(IpAddr::V4(ip_req.get_source())) && shown.ip.dst == Some(IpAddr::V4(ip_req.get_destination())), "C20: addresses shown to the logger are not the packet's");
    // the inner layer (stub) runs strictly between this layer's recv and terminal event
    if l4_rec().calls == 1 {
        assert!(l4_rec().seq_at_call > ev(L_IPV4).seq_recv && l4_rec().seq_at_call < ev(L_IPV4).seq_term, "C20: inner layer not nested inside the IPv4 events");
    }
    kani::cover!(r.is_some(), "answered");
    kani::cover!(r.is_none() && l4_rec().calls == 1, "dropped after layer 4");
    kani::cover!(r.is_none() && l4_rec().calls == 0, "dropped before layer 4");
}

//# harness: c20_ipv4_events_udp
//# props: C20
//# tier: quick
//# encodes: layer_3::ipv4::repl
//# encodes: logger::MetaLogger::{ipv4_recv,ipv4_send,ipv4_drop}
//# bounds: 20-byte IPv4 header symbolic, protocol 17, 8 transport bytes; layer-4 reply of 8 bytes or silence; self-IP list absent or {a4}
//# stubs: layer_4::{icmpv4,tcp,udp}::repl -> contract stubs recording the event sequence number at call time
//# cover: answered
//# cover: dropped before layer 4
#[kani::proof]
#[kani::unwind(14)]
#[kani::stub(crate::layer_4::icmpv4::repl, crate::verif_util::l4_icmpv4_stub)]
#[kani::stub(crate::layer_4::tcp::repl, crate::verif_util::l4_tcp_stub)]
#[kani::stub(crate::layer_4::udp::repl, crate::verif_util::l4_udp_stub)]
fn c20_ipv4_events_udp() {
    ipv4_events(Some(17), 8, 8)
}

//# harness: c20_ipv4_events_icmp
//# props: C20
//# tier: thorough
//# encodes: layer_3::ipv4::repl
//# encodes: logger::MetaLogger::{ipv4_recv,ipv4_send,ipv4_drop}
//# bounds: 20-byte IPv4 header symbolic, protocol 1, 8 transport bytes; layer-4 reply of 8 bytes or silence; self-IP list absent or {a4}
//# stubs: layer_4::{icmpv4,tcp,udp}::repl -> contract stubs recording the event sequence number at call time
//# cover: answered
//# cover: dropped before layer 4
#[kani::proof]
#[kani::unwind(14)]
#[kani::stub(crate::layer_4::icmpv4::repl, crate::verif_util::l4_icmpv4_stub)]
#[kani::stub(crate::layer_4::tcp::repl, crate::verif_util::l4_tcp_stub)]
#[kani::stub(crate::layer_4::udp::repl, crate::verif_util::l4_udp_stub)]
fn c20_ipv4_events_icmp() {
    ipv4_events(Some(1), 8, 8)
}

//# harness: c20_ipv4_events_tcp_short
//# props: C20
//# tier: thorough
//# encodes: layer_3::ipv4::repl
//# encodes: logger::MetaLogger::{ipv4_recv,ipv4_send,ipv4_drop}
//# bounds: 20-byte IPv4 header symbolic, protocol 6, 19 transport bytes; layer-4 reply of 20 bytes or silence; self-IP list absent or {a4}
//# stubs: layer_4::{icmpv4,tcp,udp}::repl -> contract stubs recording the event sequence number at call time
//# cover: dropped before layer 4
#[kani::proof]
#[kani::unwind(26)]
#[kani::stub(crate::layer_4::icmpv4::repl, crate::verif_util::l4_icmpv4_stub)]
#[kani::stub(crate::layer_4::tcp::repl, crate::verif_util::l4_tcp_stub)]
#[kani::stub(crate::layer_4::udp::repl, crate::verif_util::l4_udp_stub)]
fn c20_ipv4_events_tcp_short() {
    ipv4_events(Some(6), 19, 20)
}

//# harness: c02_ipv4_scope_udp
//# props: C02 C03 C01
//# tier: quick
//# encodes: layer_3::ipv4::repl (scope filters and address mirroring)
//# bounds: IPv4 request header symbolic, protocol 17, 8 transport bytes; layer-4 reply of 8 arbitrary bytes or silence; self-IP list absent or {a4} symbolic; deny list absent or one symbolic address; transport checksums are NOT asserted here (decided by c04_ipv4_*)
//# stubs: layer-4 entry points -> None or a transport packet of 8 arbitrary bytes
//# cover: reply emitted
//# cover: dropped: destination not in self-IP list
//# cover: dropped: source on deny list
//# cover: layer 4 silent
#[kani::proof]
#[kani::unwind(14)]
#[kani::stub(crate::layer_4::icmpv4::repl, crate::verif_util::l4_icmpv4_stub)]
#[kani::stub(crate::layer_4::tcp::repl, crate::verif_util::l4_tcp_stub)]
#[kani::stub(crate::layer_4::udp::repl, crate::verif_util::l4_udp_stub)]
fn c02_ipv4_scope_udp() {
    ipv4_case(Some(17), 8, 8, true)
}

//# harness: c02_ipv4_scope_icmp
//# props: C02 C03 C01
//# tier: thorough
//# encodes: layer_3::ipv4::repl (scope filters and address mirroring)
//# bounds: IPv4 request header symbolic, protocol 1, 8 transport bytes; layer-4 reply of 8 arbitrary bytes or silence; self-IP list absent or {a4} symbolic; deny list absent or one symbolic address; transport checksums are NOT asserted here (decided by c04_ipv4_*)
//# stubs: layer-4 entry points -> None or a transport packet of 8 arbitrary bytes
//# cover: reply emitted
//# cover: dropped: destination not in self-IP list
#[kani::proof]
#[kani::unwind(14)]
#[kani::stub(crate::layer_4::icmpv4::repl, crate::verif_util::l4_icmpv4_stub)]
#[kani::stub(crate::layer_4::tcp::repl, crate::verif_util::l4_tcp_stub)]
#[kani::stub(crate::layer_4::udp::repl, crate::verif_util::l4_udp_stub)]
fn c02_ipv4_scope_icmp() {
    ipv4_case(Some(1), 8, 8, true)
}

fn ipv4_denied_source() {
    let mut buf: [u8; 28] = kani::any();
    let d4: [u8; 4] = kani::any();
    buf[12] = d4[0]; buf[13] = d4[1]; buf[14] = d4[2]; buf[15] = d4[3];
    let ip_req = Ipv4Packet::new(&buf[..28]).unwrap();
    let mut d_set = HashSet::new();
    d_set.insert(IpAddr::V4(Ipv4Addr::from(d4)));
    let mut masscanned = ms_plain([0, 0], any_mac());
    masscanned.remote_ip_deny_list = Some(&d_set);
    l4_rec().cfg_len = 8;
    let mut ci = ClientInfo::new();
    let r = repl(&ip_req, &masscanned, &mut ci);
    assert!(r.is_none(), "C02: IPv4 packet from a denied source answered");
    assert!(l4_rec().calls == 0, "C02: IPv4 packet from a denied source reached layer 4");
    kani::cover!(buf[9] == 1, "denied ICMP dropped");
    kani::cover!(buf[9] == 17, "denied UDP dropped");
}

//# harness: c02_ipv4_denied_source
//# props: C02 C01
//# tier: quick
//# encodes: layer_3::ipv4::repl (deny-list filter)
//# bounds: 20-byte IPv4 header + 8 transport bytes, all symbolic incl. the protocol; deny list = {d4} with d4 symbolic and the packet's source address equal to it; no self-IP list
//# stubs: layer_4::{icmpv4,tcp,udp}::repl -> contract stubs (must not be reached)
//# cover: denied ICMP dropped
//# cover: denied UDP dropped
#[kani::proof]
#[kani::unwind(26)]
#[kani::stub(crate::layer_4::icmpv4::repl, crate::verif_util::l4_icmpv4_stub)]
#[kani::stub(crate::layer_4::tcp::repl, crate::verif_util::l4_tcp_stub)]
#[kani::stub(crate::layer_4::udp::repl, crate::verif_util::l4_udp_stub)]
fn c02_ipv4_denied_source() {
    ipv4_denied_source()
}
