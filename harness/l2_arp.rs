//@ target: src/layer_2/arp.rs
//@ mod: verif_arp
// The real `layer_2::arp::repl`: request for a handled address -> reply; anything else -> silence.
use crate::verif_util::*;
use crate::{proto, Masscanned};
use pnet::packet::arp::{ArpPacket, MutableArpPacket};
use pnet::packet::Packet;
use pnet::util::MacAddr;
use crate::kshim::collections::HashSet;
use std::net::{IpAddr, Ipv4Addr, Ipv6Addr};

//# harness: c05_arp
//# props: C05 C02 C12 C09 C01
//# tier: quick
//# encodes: layer_2::arp::repl
//# bounds: 28-byte ARP body fully symbolic (hardware/protocol type and sizes, all 65536 operations, all addresses); MAC symbolic; self-IP list absent or one symbolic address of the relevant family
//# assumes: the field-by-field oracle applies to well-formed requests (htype 1, ptype 0x0800, hlen 6, plen 4); for other requests only silence-for-non-requests, scope and no-panic are asserted
//# out: ARP bodies longer than 28 bytes (trailing bytes are copied verbatim)
//# cover: arp reply sent
//# cover: request for foreign address ignored
//# cover: C12 arp reply ignored
#[kani::proof]
#[kani::unwind(34)]
fn c05_arp() {
    let buf: [u8; 28] = kani::any();
    let req = ArpPacket::new(&buf[..]).unwrap();
    let mac_b: [u8; 6] = kani::any();
    let a4 = any_ip4();
    let mut s_set = HashSet::new();
    s_set.insert(IpAddr::V4(a4));
    let s_on: bool = kani::any();
    let mut masscanned = ms_plain([0, 0], MacAddr::from(mac_b));
    if s_on {
        masscanned.self_ip_list = Some(&s_set);
    }
    let q: u32 = kani::any();
    let before = proto::is_tcb_set(q);
    let r = repl(&req, &masscanned);
    assert!(proto::is_tcb_set(q) == before, "C09: ARP changed the connection table");
    let op = (buf[6] as u16) << 8 | buf[7] as u16;
    let tpa = Ipv4Addr::new(buf[24], buf[25], buf[26], buf[27]);
    let handled = !s_on || tpa == a4;
    match r {
        Some(p) => {
            assert!(op == 1, "C05/C12: ARP operation other than request answered");
            assert!(handled, "C02: ARP reply for an address outside the self-IP list");
            let b = p.packet();
            assert!(b.len() == 28, "C05: ARP reply length");
            assert!(b[6] == 0 && b[7] == 2, "C05: reply operation is not 2");
            let wf = buf[0] == 0 && buf[1] == 1 && buf[2] == 8 && buf[3] == 0 && buf[4] == 6 && buf[5] == 4;
            if wf {
                assert!(b[0] == 0 && b[1] == 1 && b[2] == 8 && b[3] == 0 && b[4] == 6 && b[5] == 4, "C05: reply is not Ethernet/IPv4");
            }
            let i: usize = kani::any();
            kani::assume(i < 6);
            assert!(b[8 + i] == mac_b[i], "C05: sender hardware address is not the configured MAC");
            assert!(b[18 + i] == buf[8 + i], "C05: target hardware address is not the requester's");
            let j: usize = kani::any();
            kani::assume(j < 4);
            assert!(b[14 + j] == buf[24 + j], "C05: sender protocol address is not the requested address");
            assert!(b[24 + j] == buf[14 + j], "C05: target protocol address is not the requester's");
            kani::cover!(true, "arp reply sent");
        }
        None => {
            assert!(!(op == 1 && handled), "C05: ARP request for a handled address not answered");
            kani::cover!(op == 1, "request for foreign address ignored");
            kani::cover!(op == 2, "C12 arp reply ignored");
        }
    }
}

//# harness: c20_arp_events
//# props: C20
//# tier: quick
//# encodes: layer_2::arp::repl
//# encodes: logger::MetaLogger::{arp_recv,arp_send,arp_drop} (real fan-out to a counting Logger)
//# bounds: 28-byte ARP body fully symbolic; self-IP list absent or {a4}
//# known: c20.arp_double_events
//# cover: arp answered
//# cover: arp dropped
#[kani::proof]
#[kani::unwind(34)]
fn c20_arp_events() {
    let buf: [u8; 28] = kani::any();
    let req = ArpPacket::new(&buf[..]).unwrap();
    let a4 = any_ip4();
    let mut s_set = HashSet::new();
    s_set.insert(IpAddr::V4(a4));
    let s_on: bool = kani::any();
    let mut masscanned = ms_counting([0, 0], any_mac());
    if s_on {
        masscanned.self_ip_list = Some(&s_set);
    }
    let r = repl(&req, &masscanned);
    if crate::verif_known::C20_ARP_DOUBLE_EVENTS {
        let e = ev(L_ARP);
        kani::cover!(e.recv == 2 || e.send == 2, "KF:c20.arp_double_events");
        assert!(e.recv >= 1 && e.send + e.drop >= 1 && (e.send >= 1) == r.is_some(), "C20: ARP events missing");
    } else {
        assert!(balanced(L_ARP, r.is_some()), "C20: ARP layer did not log exactly one recv and one terminal event (send iff answered)");
    }
    kani::cover!(r.is_some(), "arp answered");
    kani::cover!(r.is_none(), "arp dropped");
}
