#!/bin/sh
# Builds the offline dependency caches under /verif/.cache (Kani goto-rlibs of the dependencies,
# native test build for the table dumper, native playback build).  Everything comes from the
# local cargo registry; nothing is fetched.
set -e
cd "$(dirname "$0")"
export CARGO_NET_OFFLINE=true
exec python3 lib/setup.py
