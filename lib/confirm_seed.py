#!/usr/bin/env python3
"""Confirms a seeded defect produced by a sub-agent in a fresh scratch worktree of /repo:
 1. patch alone: the existing suite passes (93 tests)
 2. patch + demo: the demonstration fails
 3. demo alone: everything passes
and files it under /verif/seeded/<name>/ (patch.diff, demo.diff, NOTES.md, meta.json)."""
import json, os, re, shutil, subprocess, sys, time

def sh(cmd, cwd):
    p = subprocess.run(cmd, cwd=cwd, shell=True, stdout=subprocess.PIPE, stderr=subprocess.STDOUT, universal_newlines=True)
    return p.returncode, p.stdout

def counts(out):
    m = re.findall(r"test result: (\w+)\. (\d+) passed; (\d+) failed", out)
    return [(a, int(b), int(c)) for a, b, c in m]

def main():
    src, name, prop = sys.argv[1], sys.argv[2], sys.argv[3]
    needs = sys.argv[4] if len(sys.argv) > 4 else ""
    wt = "/tmp/cf-%s" % name
    base = os.environ.get("SEED_BASE") or subprocess.check_output("git -C /repo rev-parse HEAD", shell=True, universal_newlines=True).strip()
    sh("git -C /repo worktree remove --force %s" % wt, "/")
    rc, out = sh("git -C /repo worktree add -q %s %s" % (wt, base), "/")
    assert rc == 0, out
    log = {}
    try:
        rc, out = sh("git apply %s/patch.diff && cargo test --offline 2>&1 | tail -5" % src, wt)
        log["patch_only"] = counts(out)
        rc, out = sh("git apply %s/demo.diff && cargo test --offline 2>&1 | grep -E 'test result|FAILED|failed' | head -12" % src, wt)
        log["patch_and_demo"] = counts(out)
        log["patch_and_demo_failures"] = [l for l in out.splitlines() if "FAILED" in l][:6]
        rc, out = sh("git apply -R %s/patch.diff && cargo test --offline 2>&1 | tail -5" % src, wt)
        log["demo_only"] = counts(out)
    finally:
        sh("git -C /repo worktree remove --force %s" % wt, "/")
    ok = (log["patch_only"] and log["patch_only"][0][1] == 93 and log["patch_only"][0][2] == 0
          and log["patch_and_demo"] and log["patch_and_demo"][0][2] >= 1
          and log["demo_only"] and log["demo_only"][0][2] == 0 and log["demo_only"][0][1] > 93)
    print(json.dumps(log, indent=1), "CONFIRMED" if ok else "NOT CONFIRMED")
    if ok:
        dst = "/verif/seeded/%s" % name
        os.makedirs(dst, exist_ok=True)
        for f in ("patch.diff", "demo.diff", "NOTES.md"):
            if os.path.exists(os.path.join(src, f)):
                shutil.copy(os.path.join(src, f), os.path.join(dst, f))
        meta = {"property": prop, "name": name, "needs_to_manifest": needs, "base_commit": base,
                "confirmed": log, "confirmed_by": "lib/confirm_seed.py: fresh worktree of /repo HEAD; (1) patch alone: cargo test --offline = 93 passed; (2) patch + demo: demonstration fails; (3) demo alone: all pass",
                "origin": "independent sub-agent given only the property text and a scratch worktree", "detected_by": None}
        json.dump(meta, open(os.path.join(dst, "meta.json"), "w"), indent=1)
    return 0 if ok else 1

sys.exit(main())
