"""Native replay of solver counterexamples.

A failed harness is re-run alone with Kani's concrete playback, which turns the SAT
assignment into `kani::concrete_playback_run(values, harness)` unit tests.  The tests are
inserted into a fresh overlay of /repo's current tree and executed NATIVELY (rustc, dev
profile with overflow checks = the semantics Kani models).  Kani does not apply
`#[kani::stub]` natively, so for every stub of a *local* function the replay overlay gets a
one-line test double at the top of that function's body (`return <stub>(args);`) - the unit
under test stays the real code, the stubbed neighbour layer answers with the values the
solver chose.  Stubs of external functions (MacAddr::from_str, fmt::format, clocks) are not
doubled: natively the real function runs.

Only a counterexample whose playback test panics natively is reported as a VIOLATION."""
import json
import os
import re
import shutil
import sys
import time

import overlay as ov_mod
from overlay import InfraError, log, sh, VERIF, REPO

PLAYBACK_TARGET = os.path.join(ov_mod.CACHE, "playback-target")


def harness_stubs(h):
    """[(target_path, stub_path)] from the #[kani::stub(..)] attributes of harness h."""
    src = open(h.file).read()
    m = re.search(r"//# harness: %s\b(.*?)\bfn %s\s*\(" % (re.escape(h.name), re.escape(h.name)), src, re.S)
    if not m:
        return []
    out = []
    for a, b in re.findall(r"#\[kani::stub\(\s*([^,\s]+(?:\s*::\s*[^,\s]+)*)\s*,\s*([^)\s]+)\s*\)\]", m.group(1)):
        out.append((a.replace(" ", ""), b.replace(" ", "")))
    return out


def resolve_fn_file(ovdir, path):
    """crate::a::b::f -> (file, fn name) if a::b is a module file of the overlay."""
    if not path.startswith("crate::"):
        return None
    parts = path.split("::")[1:]
    fn = parts[-1]
    mods = parts[:-1]
    base = os.path.join(ovdir, "src")
    cands = []
    if mods:
        cands.append(os.path.join(base, *mods) + ".rs")
        cands.append(os.path.join(base, *(mods + ["mod.rs"])))
    else:
        cands.append(os.path.join(base, "masscanned.rs"))
    for c in cands:
        if os.path.exists(c):
            return c, fn
    return None


def insert_shim(file, fn, stub_path):
    s = open(file).read()
    m = re.search(r"^(\s*)(pub(\([a-z]+\))?\s+)?fn\s+%s\b" % re.escape(fn), s, re.M)
    if not m:
        raise InfraError("replay: cannot find fn %s in %s" % (fn, file))
    i = m.end()
    # optional generics
    depth = 0
    while s[i].isspace():
        i += 1
    if s[i] == "<":
        depth = 0
        while True:
            if s[i] == "<":
                depth += 1
            elif s[i] == ">" and s[i - 1] != "-":
                depth -= 1
                if depth == 0:
                    i += 1
                    break
            i += 1
    while s[i].isspace():
        i += 1
    if s[i] != "(":
        raise InfraError("replay: cannot parse signature of %s" % fn)
    start = i + 1
    depth = 0
    while True:
        if s[i] in "([":
            depth += 1
        elif s[i] in ")]":
            depth -= 1
            if depth == 0:
                break
        i += 1
    params = s[start:i]
    # split on top-level commas
    names = []
    depth = 0
    cur = ""
    for ch in params + ",":
        if ch in "(<[":
            depth += 1
        elif ch in ")>]" and not cur.endswith("-"):
            depth -= 1
        if ch == "," and depth == 0:
            p = cur.strip()
            cur = ""
            if not p:
                continue
            nm = p.split(":")[0].strip()
            nm = re.sub(r"^(mut|ref)\s+", "", nm)
            if nm in ("self", "&self", "&mut self"):
                nm = "self"
            names.append(nm)
        else:
            cur += ch
    j = s.index("{", i)
    shim = "\n    #[allow(unreachable_code)]\n    { return %s(%s); }\n" % (stub_path, ", ".join(names))
    s = s[:j + 1] + shim + s[j + 1:]
    open(file, "w").write(s)


def build_replay_overlay(scratch, harness_name, tests_code):
    files, harnesses = ov_mod.parse_harness_files()
    if harness_name not in harnesses:
        raise InfraError("replay: unknown harness %s" % harness_name)
    h = harnesses[harness_name]
    from driver import load_known
    known = load_known()
    known_keys = set(k["key"] for k in known if k.get("status") == "known")
    declared = set()
    for x in harnesses.values():
        declared.update(x.known)
    ovdir, src_hash, _ = ov_mod.build_overlay(scratch, files, known_keys, declared)
    if h.needs_tables:
        ov_mod.dump_tables(ovdir, src_hash)
    else:
        # the crate needs *some* tables to compile natively under cfg(kani)
        ov_mod.dump_tables(ovdir, src_hash)
    # insert the playback tests as a child module of the harness module
    tgt = os.path.join(ovdir, h.target)
    s = open(tgt).read()
    marker = "mod %s {\n    use super::*;\n" % h.mod
    if marker not in s:
        raise InfraError("replay: harness module marker missing")
    tests = "\n".join(tests_code)
    s = s.replace(marker, marker + "    #[cfg(test)]\n    mod verif_playback {\n        use super::*;\n%s\n    }\n" % tests, 1)
    open(tgt, "w").write(s)
    doubles = []
    for target, stub in harness_stubs(h):
        r = resolve_fn_file(ovdir, target)
        if r is None:
            doubles.append({"target": target, "stub": stub, "native_double": False})
            continue
        sp = stub if stub.startswith("crate::") else "crate::%s" % "::".join(
            [x for x in (__import__("driver").mod_path_of(h.target), h.mod, stub) if x])
        insert_shim(r[0], r[1], sp)
        doubles.append({"target": target, "stub": sp, "native_double": True})
    return ovdir, h, doubles


def run_playback(ovdir, test_names, release=False, timeout=900):
    env = {"CARGO_TARGET_DIR": PLAYBACK_TARGET, "RUST_BACKTRACE": "0"}
    outs = {}
    cmd = ["cargo", "kani", "playback", "-Z", "concrete-playback"]
    if release:
        cmd += ["--release"]
    # one run for all tests of this harness
    rc, out, wall = sh(cmd + ["--", "kani_concrete_playback", "--test-threads", "1"], cwd=ovdir, env=env,
                       timeout=timeout, check=False)
    if "error: could not compile" in out or "error[E" in out:
        raise InfraError("replay: native build of the playback overlay failed:\n" + out[-4000:])
    for t in test_names:
        m = re.search(r"test \S*%s \.\.\. (\w+)" % re.escape(t), out)
        pm = re.search(r"---- \S*%s stdout ----\n(.*?)(?:\n----|\nfailures:)" % re.escape(t), out, re.S)
        outs[t] = {"result": m.group(1) if m else "not-run",
                   "panic": (pm.group(1).strip().splitlines()[:3] if pm else [])}
    return outs, out, wall


def replay_counterexample(prop, h, ovdir, target_dir, tier_cfg, scratch, res):
    """Called by the driver for a harness whose verification failed."""
    from driver import run_kani
    logfile = os.path.join(scratch, "playback-%s.log" % h.name)
    # trace generation makes the playback run several times slower than the verification run
    pcfg = dict(tier_cfg)
    base = pcfg.get("override_timeout") or h.timeout or pcfg["harness_timeout"]
    pcfg["override_timeout"] = max(1800, 4 * base)
    pcfg["total"] = max(pcfg.get("total", 0), pcfg["override_timeout"] + 600)
    # Kani's concrete playback asks CBMC for one trace per failed check AND per satisfied cover
    # (measured: > 45 min and a kani-driver crash for a 140k-step harness).  The failed check is
    # therefore mapped to its CBMC property name (cbmc --show-properties on the goto binary of
    # the verification run) and the playback run is restricted to that ONE property.
    cand, gdir = cbmc_property_of(scratch, h, res)
    done = False
    for prop_name in cand[:4]:
        pcfg["playback_property"] = prop_name
        log("playback of %s restricted to CBMC property %s" % (h.name, prop_name))
        rc, wall, cmd = run_kani(ovdir, gdir, [h], pcfg, None, logfile, playback=True)
        if [t for t in ov_mod_parse(open(logfile, errors="replace").read()) if t[0] != "cover"]:
            done = True
            break
    pcfg.pop("playback_property", None)
    if not done:
        # fallback: full playback on a copy of the overlay without the cover statements
        povdir = os.path.join(scratch, "ov-playback")
        if os.path.exists(povdir):
            shutil.rmtree(povdir)
        shutil.copytree(ovdir, povdir)
        for d, _, fs in os.walk(os.path.join(povdir, "src")):
            for fn in fs:
                if fn.endswith(".rs"):
                    fp = os.path.join(d, fn)
                    txt = open(fp).read()
                    new = re.sub(r"^[ \t]*kani::cover!\(.*\);[ \t]*$", "", txt, flags=re.M)
                    if new != txt:
                        open(fp, "w").write(new)
        ptarget = ov_mod.seed_kani_target(scratch, "kani-target-playback")
        rc, wall, cmd = run_kani(povdir, ptarget, [h], pcfg, None, logfile, playback=True)
    text = open(logfile, errors="replace").read()
    tests = [t for t in ov_mod_parse(text) if t[0] != "cover"]
    os.makedirs(os.path.join(VERIF, "replays"), exist_ok=True)
    path = os.path.join(VERIF, "replays", "%s-%s.json" % (prop, h.name))
    rep = {"property": prop, "harness": h.name, "harness_file": os.path.relpath(h.file, VERIF),
           "repo_head": ov_mod.git_head(REPO), "failed_checks": res["failed"],
           "tests": [{"check_kind": k, "check": d, "name": n, "code": c, "values": decode(c)} for k, d, n, c in tests],
           "stubs": harness_stubs(h), "created": time.strftime("%Y-%m-%dT%H:%M:%SZ", time.gmtime())}
    if not tests:
        rep["reproduced"] = False
        rep["why"] = "Kani produced no concrete playback test (rc=%s)" % rc
        json.dump(rep, open(path, "w"), indent=1)
        rep["path"] = path
        return rep
    json.dump(rep, open(path, "w"), indent=1)
    rscratch = os.path.join(scratch, "replay")
    os.makedirs(rscratch, exist_ok=True)
    rovdir, hh, doubles = build_replay_overlay(rscratch, h.name, [t[3] for t in tests])
    rep["native_doubles"] = doubles
    outs, out, wall = run_playback(rovdir, [t[2] for t in tests])
    rep["native"] = outs
    rep["reproduced"] = any(v["result"] == "FAILED" for v in outs.values())
    if not rep["reproduced"]:
        rep["why"] = "playback tests did not fail natively: %s" % {k: v["result"] for k, v in outs.items()}
    json.dump(rep, open(path, "w"), indent=1)
    rep["path"] = path
    return rep


def cbmc_property_of(scratch, h, res):
    """(CBMC property name of the first failed check of harness h, target dir holding its goto binary)."""
    import glob
    import subprocess
    cands = glob.glob(os.path.join(scratch, "kani-target-*", "kani", "*", "debug", "build", "masscanned", "*", "out", "*%s.out" % h.name))
    cands = [c for c in cands if not c.endswith(".symtab.out")]
    if not cands:
        return [], None
    gfile = max(cands, key=os.path.getmtime)
    gdir = gfile[:gfile.index("/kani/")]
    try:
        out = subprocess.run(["cbmc", "--show-properties", "--json-ui", gfile], stdout=subprocess.PIPE, stderr=subprocess.DEVNULL,
                             universal_newlines=True, timeout=300).stdout
        props = [x for x in json.loads(out) if isinstance(x, dict) and "properties" in x][0]["properties"]
    except Exception:
        return [], None
    exact, loose = [], []
    for f in res.get("failed", []):
        desc = f["description"]
        line = f.get("at", "").rsplit(":", 1)[-1]
        for p in props:
            if ".cover." in p["name"]:
                continue
            pd = p.get("description", "")
            if desc and desc in pd:
                pl = str(p.get("sourceLocation", {}).get("line", ""))
                if pl == line:
                    exact.append(p["name"])
                else:
                    loose.append(p["name"])
    out = []
    for n in exact + loose:
        if n not in out:
            out.append(n)
    return out, gdir


def ov_mod_parse(text):
    from driver import parse_playback_tests
    return parse_playback_tests(text)


def decode(code):
    from driver import decode_vals
    return decode_vals(code)


def replay_file(path, keep=False):
    """./check --replay <file>: re-run the recorded counterexample against /repo's CURRENT tree.
    exit 1 (and a VIOLATION line) if it still reproduces, 0 if it no longer does."""
    rep = json.load(open(path))
    if rep.get("engine") in ("z3", "c13-text"):
        return replay_z3(rep, path, keep)
    scratch = "/var/tmp/masscanned-verif.replay.%d" % os.getpid()
    os.makedirs(scratch, exist_ok=True)
    try:
        rovdir, h, doubles = build_replay_overlay(scratch, rep["harness"], [t["code"] for t in rep["tests"]])
        outs, out, wall = run_playback(rovdir, [t["name"] for t in rep["tests"]])
        bad = [k for k, v in outs.items() if v["result"] == "FAILED"]
        for k, v in outs.items():
            log("replay %s: %s %s" % (k, v["result"], v["panic"][:2]))
        if bad:
            print("VIOLATION property=%s replay=%s" % (rep["property"], path))
            return 1
        log("counterexample no longer reproduces on the current tree")
        return 0
    finally:
        if not keep:
            shutil.rmtree(scratch, ignore_errors=True)


def replay_z3(rep, path, keep=False):
    """C10 z3 witness: run the REAL matcher of the current tree on the recorded payload."""
    from c10_engine import native_real_id, ref_id
    scratch = "/var/tmp/masscanned-verif.replay.%d" % os.getpid()
    os.makedirs(scratch, exist_ok=True)
    try:
        files, harnesses = ov_mod.parse_harness_files()
        ovdir, src_hash, _ = ov_mod.build_overlay(scratch, [], (), set(k for h in harnesses.values() for k in h.known))
        if rep.get("engine") == "c13-text":
            import c13_engine
            if c13_engine.replay(rep, ovdir):
                print("VIOLATION property=%s replay=%s" % (rep["property"], path))
                return 1
            log("counterexample no longer reproduces on the current tree")
            return 0
        if rep.get("kind") == "c12-rpc":
            real = native_real_id(ovdir, rep["witness"], rep["mode"])
            w = bytes.fromhex(rep["witness"])
            is_call = (real == 6 and w[4:8] == b"\x00" * 4) or (real == 5 and w[8:12] == b"\x00" * 4)
            log("replay z3 witness %s (%s): real matcher -> %s, message type CALL: %s" % (rep["witness"], rep["mode"], real, is_call))
            if real in (5, 6) and not is_call:
                print("VIOLATION property=%s replay=%s" % (rep["property"], path))
                return 1
            return 0
        real = native_real_id(ovdir, rep["witness"], rep["mode"])
        ref = ref_id(rep["witness"], rep["mode"])
        log("replay z3 witness %s (%s): real matcher -> %s, signature set -> %s" % (rep["witness"], rep["mode"], real, ref))
        if real != ref:
            print("VIOLATION property=%s replay=%s" % (rep["property"], path))
            return 1
        return 0
    finally:
        if not keep:
            shutil.rmtree(scratch, ignore_errors=True)
