"""Evidence writer: /verif/evidence/<id>.json per /root/.vp/EVIDENCE.schema.json.
Every number is measured on this run (taken from Kani's JSON export / CBMC statistics)."""
import json
import os

from overlay import VERIF


def write_evidence(prop, tier, seed, sel, results, verdict, info, wall, known):
    obligations = 0
    discharged = 0
    solver_s = 0.0
    symex_s = 0.0
    vccs = 0
    prog = 0
    per = []
    witnesses = []
    nontrivial = 0
    for h in sel:
        r = results.get(h.name, {})
        pd = r.get("props", {}) or {}
        st = r.get("stats", {}) or {}
        tot = int(pd.get("total_properties", 0) or 0)
        ok = int(pd.get("passed", 0) or 0) + int(pd.get("unreachable", 0) or 0) + int(pd.get("satisfied", 0) or 0) \
            + int(pd.get("unsatisfiable", 0) or 0)
        obligations += tot
        if r.get("status") == "success":
            discharged += tot
        else:
            discharged += ok if r.get("status") in ("failed",) else 0
        solver_s += float(st.get("runtime_decision_procedure_s", 0) or 0)
        symex_s += float(st.get("runtime_symex_s", 0) or 0)
        vccs += int(st.get("vccs_generated", 0) or 0)
        prog += int(st.get("size_program_expression", 0) or 0)
        sat = sorted(c for c, s in r.get("covers", {}).items() if s == "Satisfied")
        for c in sat:
            witnesses.append("%s: %s" % (h.name, c))
        if r.get("status") == "success" and sat:
            nontrivial += 1
        per.append({
            "harness": h.name,
            "status": r.get("status"),
            "functions_encoded": h.encodes,
            "bounds": h.bounds,
            "stubs": h.stubs,
            "assumptions": h.assumes,
            "outside_the_claim": h.out,
            "cbmc_properties": tot,
            "covers": r.get("covers", {}),
            "cbmc": {k: st.get(k) for k in ("runtime_symex_s", "runtime_decision_procedure_s", "runtime_solver_s",
                                             "vccs_generated", "vccs_remaining", "size_program_expression")},
            "wall_s": r.get("duration_s"),
            "failed_checks": r.get("failed", []),
            "sample_checks": r.get("sample_checks", []),
            "replay": {k: v for k, v in (r.get("replay") or {}).items() if k in ("path", "reproduced", "why")},
        })
    samples = []
    for p in per[:4]:
        samples.append({"harness": p["harness"], "bounds": p["bounds"], "obligations": p["sample_checks"][:3],
                        "reachability_witnesses": [c for c, s in p["covers"].items() if s == "Satisfied"][:4]})
    assumptions = []
    for h in sel:
        for a in h.assumes:
            if a not in assumptions:
                assumptions.append(a)
        for s in h.stubs:
            t = "stub: " + s
            if t not in assumptions:
                assumptions.append(t)
        for o in h.out:
            t = "outside the claim: " + o
            if t not in assumptions:
                assumptions.append(t)
    assumptions += [
        "std::collections::{HashSet,HashMap} replaced by a linear-scan contract model under cfg(kani) (std hash containers are trusted base)",
        "log crate runs with its default no-op logger; MetaLogger has no registered logger unless the harness adds one",
        "Kani/CBMC bounded model checking: every loop is unwound to the harness bound with unwinding assertions ON; nothing is claimed outside the listed bounds",
        "arithmetic checked with debug semantics (overflow = failure)",
    ]
    if "tables" in info:
        assumptions.append("matcher tables are the REAL Smack::compile() output dumped natively from this tree (sha256 %s); "
                           "under Kani proto_init/http_init are stubbed by a constructor over these tables" % info["tables"]["sha256"][:16])
    ev = {
        "property_id": prop,
        "tier": tier,
        "seed": seed,
        "level": "model_checking",
        "coverage": {
            "evaluations": len(sel),
            "distinct_nontrivial": len(witnesses),
            "rule": "evaluations = harness instances handed to CBMC this run (one SAT problem family each; every kani::any() input is "
                    "quantified over its full domain inside the stated bounds, nothing is sampled). distinct_nontrivial = number of "
                    "distinct (harness, reachability cover) witnesses the solver SATISFIED on this run, i.e. distinct non-vacuous "
                    "scenarios (reply produced / silence / each branch of interest) proven reachable under the harness assumptions.",
            "samples": samples,
            "obligations": obligations,
            "discharged": discharged,
            "checker_cmd": info.get("kani_cmd", ""),
            "trusted_base": ["Kani 0.68.0 (MIR -> goto translation)", "CBMC 6.11.0 + CaDiCaL", "rustc front end",
                             "pnet / siphasher / lazy_static crates compiled from source into the model (not stubbed unless listed)"],
            "engines": sorted(set(["kani/cbmc"] + (["z3 (QF_BV over the dumped matcher tables, lib/c10_z3.py)"] if any(h.name == "c10_z3_tables" for h in sel) else [])
                                  + (["z3 (QF_BV encoding of the 401 response built by a source-level translator, lib/c13_z3.py; native validation)"] if any(h.name == "c13_z3_response_text" for h in sel) else []))),
            "harnesses": per,
            "harnesses_passed": len(verdict.passed),
            "harnesses_nonvacuous": nontrivial,
            "reachability_witnesses": witnesses,
            "solver_time_s": round(solver_s, 2),
            "symex_time_s": round(symex_s, 2),
            "vccs_generated": vccs,
            "program_expression_size": prog,
            "inconclusive": verdict.inconclusive,
            "known_findings_reported": verdict.known_lines,
            "exhaustive": False,
            "repo_head": info.get("repo_head"),
            "repo_src_sha256": info.get("repo_src_sha256"),
            "tables": info.get("tables"),
        },
        "assumptions": assumptions,
        "wall_s": round(wall, 1),
        "violations": len(verdict.violations),
    }
    os.makedirs(os.path.join(VERIF, "evidence"), exist_ok=True)
    p = os.path.join(VERIF, "evidence", "%s.json" % prop)
    with open(p + ".tmp", "w") as f:
        json.dump(ev, f, indent=1)
    os.replace(p + ".tmp", p)
    return p
