
// ---- verification appendix (overlay only; appended to src/smack/smack.rs by /verif/check) ----
// Nothing above this line is edited. `verif_dump` serialises the tables that the REAL
// `Smack::compile()` produced (run natively); `verif_from_tables` rebuilds a `Smack` whose
// search-relevant fields are exactly those tables, so that under Kani the real
// `search_next` / `search_next_end` / `inner_match*` run on the real compiled automaton
// without CBMC having to execute the (input-free) compiler.
impl Smack {
    #[allow(dead_code)]
    pub fn verif_dump(&self, name: &str) -> String {
        let mut s = String::new();
        let up = name.to_uppercase();
        s += &format!("pub const {}_IS_NOCASE: bool = {};\n", up, self.is_nocase);
        s += &format!("pub const {}_IS_ANCHOR_BEGIN: bool = {};\n", up, self.is_anchor_begin);
        s += &format!("pub const {}_IS_ANCHOR_END: bool = {};\n", up, self.is_anchor_end);
        s += &format!("pub const {}_STATE_COUNT: usize = {};\n", up, self.m_state_count);
        s += &format!("pub const {}_MATCH_LIMIT: usize = {};\n", up, self.m_match_limit);
        s += &format!("pub const {}_SYMBOL_COUNT: usize = {};\n", up, self.symbol_count);
        s += &format!("pub const {}_ROW_SHIFT: usize = {};\n", up, self.row_shift);
        s += &format!(
            "pub static {}_CHAR_TO_SYMBOL: [u8; {}] = {:?};\n",
            up,
            self.char_to_symbol.len(),
            self.char_to_symbol
        );
        s += &format!(
            "pub static {}_TRANSITIONS: [usize; {}] = {:?};\n",
            up,
            self.transitions.len(),
            self.transitions
        );
        s += &format!(
            "pub fn {}_matches() -> Vec<super::SmackMatches> {{ vec![",
            name
        );
        for r in 0..self.m_match.len() {
            s += &format!(
                "super::SmackMatches {{ m_count: {}, m_ids: vec!{:?} }},",
                self.m_match[r].m_count, self.m_match[r].m_ids
            );
        }
        s += "] }\n";
        // flat form for the z3 encoder: per row [count, id0, id1, id2]
        let mut flat: Vec<usize> = Vec::new();
        for r in 0..self.m_match.len() {
            flat.push(self.m_match[r].m_count);
            for k in 0..3 {
                flat.push(*self.m_match[r].m_ids.get(k).unwrap_or(&usize::MAX));
            }
        }
        s += &format!(
            "pub static {}_MATCH_FLAT: [usize; {}] = {:?};\n",
            up,
            flat.len(),
            flat
        );
        s
    }

    #[allow(dead_code)]
    pub fn verif_from_tables(
        is_nocase: bool,
        is_anchor_begin: bool,
        is_anchor_end: bool,
        state_count: usize,
        match_limit: usize,
        symbol_count: usize,
        row_shift: usize,
        char_to_symbol: &'static [u8],
        transitions: &'static [usize],
        m_match: Vec<SmackMatches>,
    ) -> Smack {
        Smack {
            _name: String::new(),
            is_nocase,
            is_anchor_begin,
            is_anchor_end,
            m_pattern_list: Vec::new(),
            m_pattern_count: 0,
            m_state_table: Vec::new(),
            m_state_count: state_count,
            m_state_max: state_count,
            m_match,
            m_match_limit: match_limit,
            symbol_to_char: Vec::new(),
            // backed directly by the statics (never dropped: the Smack lives in a lazy_static
            // or is mem::forget-ed by the harness)
            char_to_symbol: unsafe {
                Vec::from_raw_parts(
                    char_to_symbol.as_ptr() as *mut u8,
                    char_to_symbol.len(),
                    char_to_symbol.len(),
                )
            },
            symbol_count,
            row_shift,
            transitions: unsafe {
                Vec::from_raw_parts(
                    transitions.as_ptr() as *mut usize,
                    transitions.len(),
                    transitions.len(),
                )
            },
        }
    }
}

#[cfg(kani)]
#[allow(dead_code)]
pub mod verif_tables {
    include!(concat!(env!("CARGO_MANIFEST_DIR"), "/src/verif_tables.rs"));
    use super::Smack;
    pub fn proto_smack() -> Smack {
        Smack::verif_from_tables(
            PROTO_IS_NOCASE,
            PROTO_IS_ANCHOR_BEGIN,
            PROTO_IS_ANCHOR_END,
            PROTO_STATE_COUNT,
            PROTO_MATCH_LIMIT,
            PROTO_SYMBOL_COUNT,
            PROTO_ROW_SHIFT,
            &PROTO_CHAR_TO_SYMBOL,
            &PROTO_TRANSITIONS,
            proto_matches(),
        )
    }
    pub fn http_smack() -> Smack {
        Smack::verif_from_tables(
            HTTP_IS_NOCASE,
            HTTP_IS_ANCHOR_BEGIN,
            HTTP_IS_ANCHOR_END,
            HTTP_STATE_COUNT,
            HTTP_MATCH_LIMIT,
            HTTP_SYMBOL_COUNT,
            HTTP_ROW_SHIFT,
            &HTTP_CHAR_TO_SYMBOL,
            &HTTP_TRANSITIONS,
            http_matches(),
        )
    }
}
