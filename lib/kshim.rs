// Contract model of std::collections::{HashSet, HashMap} for Kani builds:
// linear-scan containers with set/map semantics (membership by Eq, no duplicates).
#![allow(dead_code)]
pub mod collections {
    #[cfg(not(kani))]
    pub use std::collections::*;

    #[cfg(kani)]
    pub use self::model::{HashMap, HashSet};
    #[cfg(kani)]
    pub use std::collections::{BTreeMap, BTreeSet, BinaryHeap, LinkedList, VecDeque};

    #[cfg(kani)]
    mod model {
        use std::borrow::Borrow;
        use std::iter::FromIterator;

        #[derive(Clone, Debug)]
        pub struct HashSet<T> {
            items: Vec<T>,
        }
        impl<T> Default for HashSet<T> {
            fn default() -> Self {
                HashSet { items: Vec::with_capacity(8) }
            }
        }
        impl<T: PartialEq> HashSet<T> {
            pub fn new() -> Self {
                HashSet { items: Vec::with_capacity(8) }
            }
            pub fn with_capacity(_n: usize) -> Self {
                Self::new()
            }
            pub fn len(&self) -> usize {
                self.items.len()
            }
            pub fn is_empty(&self) -> bool {
                self.items.is_empty()
            }
            pub fn contains<Q: ?Sized + PartialEq>(&self, v: &Q) -> bool
            where
                T: Borrow<Q>,
            {
                let mut i = 0;
                while i < self.items.len() {
                    if self.items[i].borrow() == v {
                        return true;
                    }
                    i += 1;
                }
                false
            }
            pub fn insert(&mut self, v: T) -> bool {
                if self.contains(&v) {
                    false
                } else {
                    self.items.push(v);
                    true
                }
            }
            pub fn remove<Q: ?Sized + PartialEq>(&mut self, v: &Q) -> bool
            where
                T: Borrow<Q>,
            {
                let mut i = 0;
                while i < self.items.len() {
                    if self.items[i].borrow() == v {
                        self.items.remove(i);
                        return true;
                    }
                    i += 1;
                }
                false
            }
            pub fn iter(&self) -> std::slice::Iter<'_, T> {
                self.items.iter()
            }
            pub fn clear(&mut self) {
                self.items.clear()
            }
        }
        impl<T: PartialEq> Extend<T> for HashSet<T> {
            fn extend<I: IntoIterator<Item = T>>(&mut self, it: I) {
                for x in it {
                    self.insert(x);
                }
            }
        }
        impl<T: PartialEq> FromIterator<T> for HashSet<T> {
            fn from_iter<I: IntoIterator<Item = T>>(it: I) -> Self {
                let mut s = HashSet::new();
                s.extend(it);
                s
            }
        }
        impl<T: PartialEq, const N: usize> From<[T; N]> for HashSet<T> {
            fn from(a: [T; N]) -> Self {
                IntoIterator::into_iter(a).collect()
            }
        }
        impl<'a, T> IntoIterator for &'a HashSet<T> {
            type Item = &'a T;
            type IntoIter = std::slice::Iter<'a, T>;
            fn into_iter(self) -> Self::IntoIter {
                self.items.iter()
            }
        }
        impl<T> IntoIterator for HashSet<T> {
            type Item = T;
            type IntoIter = std::vec::IntoIter<T>;
            fn into_iter(self) -> Self::IntoIter {
                self.items.into_iter()
            }
        }
        impl<T: PartialEq> PartialEq for HashSet<T> {
            fn eq(&self, o: &Self) -> bool {
                self.len() == o.len() && self.items.iter().all(|x| o.contains(x))
            }
        }

        #[derive(Clone, Debug)]
        pub struct HashMap<K, V> {
            items: Vec<(K, V)>,
        }
        impl<K, V> Default for HashMap<K, V> {
            fn default() -> Self {
                HashMap { items: Vec::with_capacity(8) }
            }
        }
        pub struct Entry<'a, K, V> {
            map: &'a mut HashMap<K, V>,
            key: K,
        }
        impl<'a, K: PartialEq, V> Entry<'a, K, V> {
            pub fn or_insert(self, default: V) -> &'a mut V {
                let idx = match self.map.position(&self.key) {
                    Some(i) => i,
                    None => {
                        self.map.items.push((self.key, default));
                        self.map.items.len() - 1
                    }
                };
                &mut self.map.items[idx].1
            }
        }
        impl<K: PartialEq, V> HashMap<K, V> {
            pub fn new() -> Self {
                HashMap { items: Vec::with_capacity(8) }
            }
            fn position<Q: ?Sized + PartialEq>(&self, k: &Q) -> Option<usize>
            where
                K: Borrow<Q>,
            {
                let mut i = 0;
                while i < self.items.len() {
                    if self.items[i].0.borrow() == k {
                        return Some(i);
                    }
                    i += 1;
                }
                None
            }
            pub fn len(&self) -> usize {
                self.items.len()
            }
            pub fn is_empty(&self) -> bool {
                self.items.is_empty()
            }
            pub fn contains_key<Q: ?Sized + PartialEq>(&self, k: &Q) -> bool
            where
                K: Borrow<Q>,
            {
                self.position(k).is_some()
            }
            pub fn get<Q: ?Sized + PartialEq>(&self, k: &Q) -> Option<&V>
            where
                K: Borrow<Q>,
            {
                match self.position(k) {
                    Some(i) => Some(&self.items[i].1),
                    None => None,
                }
            }
            pub fn get_mut<Q: ?Sized + PartialEq>(&mut self, k: &Q) -> Option<&mut V>
            where
                K: Borrow<Q>,
            {
                match self.position(k) {
                    Some(i) => Some(&mut self.items[i].1),
                    None => None,
                }
            }
            pub fn insert(&mut self, k: K, v: V) -> Option<V> {
                match self.position(&k) {
                    Some(i) => Some(std::mem::replace(&mut self.items[i].1, v)),
                    None => {
                        self.items.push((k, v));
                        None
                    }
                }
            }
            pub fn remove<Q: ?Sized + PartialEq>(&mut self, k: &Q) -> Option<V>
            where
                K: Borrow<Q>,
            {
                match self.position(k) {
                    Some(i) => Some(self.items.remove(i).1),
                    None => None,
                }
            }
            pub fn entry(&mut self, key: K) -> Entry<'_, K, V> {
                Entry { map: self, key }
            }
            pub fn clear(&mut self) {
                self.items.clear()
            }
        }
        impl<K, V> IntoIterator for HashMap<K, V> {
            type Item = (K, V);
            type IntoIter = std::vec::IntoIter<(K, V)>;
            fn into_iter(self) -> Self::IntoIter {
                self.items.into_iter()
            }
        }
    }
}

