
// ---- verification appendix (overlay only; appended to src/proto/mod.rs by /verif/check) ----
// Native dumper for the REAL compiled matcher tables (runs the real proto_init()/http_init()).
#[cfg(test)]
mod verif_dump {
    use super::*;
    #[test]
    fn verif_dump_tables() {
        let out = std::env::var("VERIF_TABLES_OUT").expect("VERIF_TABLES_OUT");
        let mut s = String::new();
        s += &PROTO_SMACK.verif_dump("proto");
        s += &http::verif_http_dump();
        std::fs::write(out, s).unwrap();
    }
}

// Under Kani `proto_init` is stubbed by this constructor (precomputed static tables cut).
#[cfg(kani)]
#[allow(dead_code)]
pub fn verif_proto_init_stub() -> Smack {
    crate::smack::verif_tables::proto_smack()
}
