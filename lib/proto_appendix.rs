
// ---- verification appendix (overlay only; appended to src/proto/mod.rs by /verif/check) ----
// Native dumper for the REAL compiled matcher tables (runs the real proto_init()/http_init()).
#[cfg(test)]
mod verif_dump {
    use super::*;
    #[test]
    fn verif_dump_tables() {
        let out = std::env::var("VERIF_TABLES_OUT").expect("VERIF_TABLES_OUT");
        let mut s = String::new();
        s += &PROTO_SMACK.verif_dump("proto");
        s += &http::verif_http_dump();
        std::fs::write(out, s).unwrap();
    }
}

// Under Kani `proto_init` is stubbed by this constructor (precomputed static tables cut).
#[cfg(kani)]
#[allow(dead_code)]
pub fn verif_proto_init_stub() -> Smack {
    crate::smack::verif_tables::proto_smack()
}

// Native replay of a z3 witness for C10: runs the REAL matcher of this tree on the payload.
#[cfg(test)]
mod verif_c10_replay {
    use super::*;
    #[test]
    fn verif_c10_replay() {
        let hex = match std::env::var("VERIF_C10_WITNESS") {
            Ok(h) => h,
            Err(_) => return,
        };
        let datagram = std::env::var("VERIF_C10_MODE").map(|m| m == "datagram").unwrap_or(false);
        let data: Vec<u8> = (0..hex.len() / 2).map(|i| u8::from_str_radix(&hex[2 * i..2 * i + 2], 16).unwrap()).collect();
        let mut i = 0;
        let mut state = BASE_STATE;
        let mut id = PROTO_SMACK.search_next(&mut state, &data, &mut i);
        if id == NO_MATCH && datagram {
            id = PROTO_SMACK.search_next_end(&mut state);
        }
        if id == NO_MATCH {
            println!("VERIF_C10_REAL=none");
        } else {
            println!("VERIF_C10_REAL={}", id);
        }
    }
}
