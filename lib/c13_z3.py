#!/usr/bin/env python3
"""C13, response text: source-level symbolic encoding of the one `format!` call that builds the
HTTP 401 response in src/proto/http.rs (`proto::http::repl`), decided with an SMT solver
(QF_BV: the response is a byte vector whose date bytes are symbolic; one group of queries per
date length 0..DATE_MAX - a first attempt over the theory of strings with a symbolic-length
date was not decided by z3 4.8.12, z3 5.1 or cvc5 1.0 within 60 s per query).

Why a translator: Kani/CBMC does not get through `alloc::fmt::format` of this template
(no result in 23 minutes, see DESIGN.md A.3).  The response is
    piece0 ++ arg0 ++ piece1 ++ arg1 ++ ... ++ pieceN
where the pieces are the literal parts of the template and the arguments are, in this tree,
the wall-clock date (symbolic: any string of at most DATE_MAX characters without CR / LF -
the contract of chrono's to_rfc2822), the decimal rendering of a length expression over a
string constant, and string constants.  The translator is regenerated from /repo's current
source on every run and REFUSES (inconclusive) anything it does not understand: another
placeholder syntax, an argument that is not one of the forms above, non-ASCII text (Rust's
len() counts bytes, SMT-LIB's str.len counts characters), a different shape of the function
tail.  It is validated on every run by asking the solver whether the encoding can produce the
bytes the REAL compiled function returned natively for a concrete request (must be sat).

usage: python3-vt c13_z3.py <http.rs> <real_response_hex|-> [crosscheck] -> JSON on stdout
"""
import json
import re
import subprocess
import sys
import time

DATE_MAX = 40


class Unsupported(Exception):
    pass


def unescape_rust(lit):
    """body of a Rust "..." literal -> str (ASCII only)"""
    out = []
    i = 0
    while i < len(lit):
        c = lit[i]
        if c != "\\":
            out.append(c)
            i += 1
            continue
        i += 1
        if i >= len(lit):
            raise Unsupported("dangling backslash in string literal")
        e = lit[i]
        if e == "\n":  # line continuation: skip the newline and the leading whitespace
            i += 1
            while i < len(lit) and lit[i] in " \t\r\n":
                i += 1
            continue
        if e == "n":
            out.append("\n")
        elif e == "r":
            out.append("\r")
        elif e == "t":
            out.append("\t")
        elif e == "0":
            out.append("\0")
        elif e in "\\\"'":
            out.append(e)
        elif e == "x":
            out.append(chr(int(lit[i + 1:i + 3], 16)))
            i += 2
        else:
            raise Unsupported("escape \\%s in string literal" % e)
        i += 1
    return "".join(out)


STR_LIT = r'"((?:[^"\\]|\\.)*)"'


def split_args(s):
    """split a macro argument list at top-level commas"""
    args, depth, cur, i = [], 0, [], 0
    while i < len(s):
        c = s[i]
        if c == '"':
            m = re.compile(STR_LIT, re.S).match(s, i)
            if not m:
                raise Unsupported("unterminated string literal in format! arguments")
            cur.append(m.group(0))
            i = m.end()
            continue
        if c in "([{":
            depth += 1
        elif c in ")]}":
            depth -= 1
        if c == "," and depth == 0:
            args.append("".join(cur).strip())
            cur = []
        else:
            cur.append(c)
        i += 1
    if "".join(cur).strip():
        args.append("".join(cur).strip())
    return args


def extract(src):
    """-> (pieces, args) with args in {("date",), ("int", n), ("str", s)}; plus the constants used"""
    m = re.search(r"pub fn repl\b", src)
    if not m:
        raise Unsupported("proto::http::repl not found")
    body = src[m.start():]
    end = re.search(r"\n}\n", body)
    body = body[:end.end()] if end else body
    consts = {}
    for cm in re.finditer(r"let\s+(\w+)\s*=\s*" + STR_LIT + r"\s*;", body, re.S):
        consts[cm.group(1)] = unescape_rust(cm.group(2))
    # `let x = if <cond> { A } else { B };` with A, B string constants: the condition is
    # abstracted by a free boolean, x becomes a two-way choice
    choices = {}
    atom = r"(?:" + STR_LIT + r"|(\w+))"
    for cm in re.finditer(r"let\s+(\w+)\s*=\s*if\s+([^{}]+?)\s*\{\s*" + atom + r"\s*\}\s*else\s*\{\s*" + atom + r"\s*\}\s*;", body, re.S):
        alts = []
        for lit, ident in ((cm.group(3), cm.group(4)), (cm.group(5), cm.group(6))):
            if lit is not None:
                alts.append(unescape_rust(lit))
            elif ident in consts:
                alts.append(consts[ident])
            else:
                raise Unsupported("branch %r of the conditional constant %s is not a string constant" % (ident, cm.group(1)))
        choices[cm.group(1)] = (alts, re.sub(r"\s+", " ", cm.group(2)))
    fm = re.search(r"let\s+(\w+)\s*=\s*format!\s*\(", body)
    if not fm:
        raise Unsupported("no `let x = format!(..)` in proto::http::repl")
    var = fm.group(1)
    i = fm.end()
    depth = 1
    j = i
    while j < len(body) and depth:
        c = body[j]
        if c == '"':
            sm = re.compile(STR_LIT, re.S).match(body, j)
            j = sm.end()
            continue
        if c == "(":
            depth += 1
        elif c == ")":
            depth -= 1
        j += 1
    inner = body[i:j - 1]
    tail = body[j:j + 40]
    if not re.match(r"\s*\.into_bytes\(\)\s*;", tail):
        raise Unsupported("the formatted string is not turned into the reply with .into_bytes()")
    rest = body[j:]
    # no other write to the reply between format! and `Some(var)`
    if not re.search(r"\n\s*Some\(%s\)\s*\n}" % re.escape(var), rest):
        raise Unsupported("proto::http::repl does not end with Some(%s)" % var)
    if re.search(r"\b%s\b\s*(\.|\[|=[^=])" % re.escape(var), re.sub(r"Some\(%s\)" % re.escape(var), "", rest[rest.index(";") + 1:])):
        raise Unsupported("the reply buffer is modified after format!")
    parts = split_args(inner)
    tm = re.fullmatch(STR_LIT, parts[0], re.S)
    if not tm:
        raise Unsupported("format! template is not a string literal")
    template = unescape_rust(tm.group(1))
    pieces, cur, k, nph = [], [], 0, 0
    while k < len(template):
        c = template[k]
        if c == "{":
            if template[k:k + 2] == "{{":
                cur.append("{")
                k += 2
                continue
            if template[k:k + 2] == "{}":
                pieces.append("".join(cur))
                cur = []
                nph += 1
                k += 2
                continue
            raise Unsupported("placeholder other than {} in the template: %r" % template[k:k + 8])
        if c == "}":
            if template[k:k + 2] == "}}":
                cur.append("}")
                k += 2
                continue
            raise Unsupported("stray } in the template")
        cur.append(c)
        k += 1
    pieces.append("".join(cur))
    exprs = parts[1:]
    if len(exprs) != nph:
        raise Unsupported("%d placeholders, %d arguments" % (nph, len(exprs)))
    args = []
    for e in exprs:
        e1 = re.sub(r"\s+", "", e)
        if e1 == "Utc::now().to_rfc2822()":
            args.append(("date",))
            continue
        lm = re.fullmatch(r"(\w+)\.len\(\)(?:([+-])(\d+))?", e1)
        if lm and (lm.group(1) in consts or lm.group(1) in choices):
            delta = 0
            if lm.group(2):
                delta = int(lm.group(3)) if lm.group(2) == "+" else -int(lm.group(3))
            if lm.group(1) in consts:
                n = len(consts[lm.group(1)].encode("utf-8")) + delta
                if n < 0:
                    raise Unsupported("length expression underflows (would panic: C01)")
                args.append(("int", n, e1))
            else:
                args.append(("choice_len", lm.group(1), delta, e1))
            continue
        if e1 in choices:
            args.append(("choice", e1, e1))
            continue
        if re.fullmatch(r"\d+(usize|u32|u64|i32)?", e1):
            args.append(("int", int(re.match(r"\d+", e1).group(0)), e1))
            continue
        if e1 in consts:
            args.append(("str", consts[e1], e1))
            continue
        sm = re.fullmatch(STR_LIT, e.strip(), re.S)
        if sm:
            args.append(("str", unescape_rust(sm.group(1)), "literal"))
            continue
        raise Unsupported("format! argument %r is not a supported form" % e)
    return pieces, args, choices


def variants(args, choices):
    """every assignment of the conditional constants -> (label, concrete argument list)"""
    used = sorted(set(a[1] for a in args if a[0] in ("choice", "choice_len")))
    out = []

    def rec(k, env):
        if k == len(used):
            conc = []
            for a in args:
                if a[0] == "choice":
                    conc.append(("str", choices[a[1]][0][env[a[1]]], a[2]))
                elif a[0] == "choice_len":
                    n = len(choices[a[1]][0][env[a[1]]].encode("utf-8")) + a[2]
                    if n < 0:
                        raise Unsupported("length expression underflows (would panic: C01)")
                    conc.append(("int", n, a[3]))
                else:
                    conc.append(a)
            label = ", ".join("%s = %s branch of `if %s`" % (u, "then" if env[u] == 0 else "else", choices[u][1]) for u in used) or "only"
            out.append((label, conc))
            return
        for b in (0, 1):
            e2 = dict(env)
            e2[used[k]] = b
            rec(k + 1, e2)
    rec(0, {})
    return out


# ---------------------------------------------------------------------------------------------
# byte-level encoding.  A response byte is a python int (concrete) or a z3 BitVec(8) term (date).
import z3  # noqa: E402

POSW = 16


def b_eq(x, c):
    if isinstance(x, int):
        return x == c
    return x == z3.BitVecVal(c, 8)


def s_and(*xs):
    ys = []
    for x in xs:
        if x is False:
            return False
        if x is True:
            continue
        ys.append(x)
    if not ys:
        return True
    return z3.And(*ys) if len(ys) > 1 else ys[0]


def s_or(*xs):
    ys = []
    for x in xs:
        if x is True:
            return True
        if x is False:
            continue
        ys.append(x)
    if not ys:
        return False
    return z3.Or(*ys) if len(ys) > 1 else ys[0]


def s_not(x):
    if x is True:
        return False
    if x is False:
        return True
    return z3.Not(x)


def s_if(c, a, b):
    if c is True:
        return a
    if c is False:
        return b
    return z3.If(c, a, b)


def tobool(x):
    return z3.BoolVal(x) if isinstance(x, bool) else x


def match_at(r, j, pat):
    if j < 0 or j + len(pat) > len(r):
        return False
    return s_and(*[b_eq(r[j + k], pat[k]) for k in range(len(pat))])


def response_bytes(pieces, args, date):
    r = []
    for k, p in enumerate(pieces):
        r += list(p.encode("utf-8"))
        if k < len(args):
            a = args[k]
            if a[0] == "date":
                r += list(date)
            elif a[0] == "int":
                r += list(str(a[1]).encode())
            else:
                r += list(a[1].encode("utf-8"))
    return r


def analyse(r):
    """symbolic HTTP response dissection -> dict of z3 terms (or python constants)"""
    n = len(r)
    bv = lambda v: z3.BitVecVal(v, POSW)
    # first empty line: LF LF or CR LF CR LF, whichever starts first
    idx, sepl, found = bv(0), bv(0), False
    for i in range(n - 1, -1, -1):
        lf = match_at(r, i, b"\n\n")
        crlf = match_at(r, i, b"\r\n\r\n")
        here = s_or(lf, crlf)
        if here is False:
            continue
        idx = s_if(here, bv(i), idx)
        sepl = s_if(here, s_if(crlf, bv(4), bv(2)), sepl)
        found = s_or(here, found) if here is not True else True
    body_len = bv(n) - idx - sepl
    in_head = lambda j: z3.ULT(bv(j), idx)

    def header_line(name):
        """some line of the head starts with `name`"""
        c = []
        for j in range(n):
            m = match_at(r, j, b"\n" + name)
            if m is False:
                continue
            c.append(s_and(m, in_head(j)))
        return s_or(*c)

    # Content-Length: value of the FIRST such line of the head
    cl_found, cl_val, cl_ok = False, z3.BitVecVal(0, 32), False
    name = b"\nContent-Length: "
    for j in range(n - 1, -1, -1):
        m = match_at(r, j, name)
        if m is False:
            continue
        m = s_and(m, in_head(j))
        # decimal value up to LF / CR LF, at most 9 digits
        val, ok, done = z3.BitVecVal(0, 32), False, False
        digits = 0
        v = z3.BitVecVal(0, 32)
        ended = False
        okv = False
        for k in range(0, 11):
            pos = j + len(name) + k
            if pos >= n:
                break
            x = r[pos]
            is_lf = b_eq(x, 10)
            is_crlf = s_and(b_eq(x, 13), b_eq(r[pos + 1], 10) if pos + 1 < n else False)
            end_here = s_and(s_not(ended), s_or(is_lf, is_crlf))
            if isinstance(x, int):
                is_digit = 48 <= x <= 57
                dv = z3.BitVecVal(x - 48 if is_digit else 0, 32)
            else:
                is_digit = z3.And(z3.UGE(x, 48), z3.ULE(x, 57))
                dv = z3.ZeroExt(24, x) - 48
            # a value is well-formed when it ends after >= 1 digit and everything before was a digit
            okv = s_or(okv, s_and(end_here, k > 0 and k <= 9))
            v = s_if(s_or(ended, end_here, s_not(is_digit)), v, v * 10 + dv)
            # a non-digit that is not the end spoils the value
            spoil = s_and(s_not(ended), s_not(end_here), s_not(is_digit))
            if spoil is True:
                ended = True if ended is False else ended
                if okv is False:
                    break
            elif spoil is not False:
                okv = s_and(okv, s_not(spoil)) if okv is not False else False
            ended = s_or(ended, end_here)
        cl_val = s_if(m, v, cl_val)
        cl_ok = s_if(m, tobool(okv), tobool(cl_ok))
        cl_found = s_or(m, cl_found) if m is not True else True
    return {
        "status_line": match_at(r, 0, b"HTTP/1.1 401"),
        "blank_line": found,
        "www_authenticate": s_and(found, header_line(b"WWW-Authenticate: ")),
        "content_length_present": s_and(found, cl_found),
        "content_length_equals_body": s_and(found, cl_found, cl_ok, z3.ZeroExt(32 - POSW, body_len) == cl_val),
    }


WHAT = {
    "status_line": "the response does not start with 'HTTP/1.1 401'",
    "blank_line": "no empty line separates header and body",
    "www_authenticate": "no WWW-Authenticate header line in the head",
    "content_length_present": "no Content-Length header line in the head",
    "content_length_equals_body": "Content-Length differs from the number of body bytes sent",
}


def crosscheck(smt2, timeout=60):
    """same query on the two other solver builds; -> {solver: answer}"""
    out = {}
    for name, cmd in (("z3-4.8.12", ["/usr/bin/z3", "-in", "-T:%d" % timeout]),
                      ("cvc5-1.0", ["cvc5", "--lang", "smt2", "--tlimit=%d" % (timeout * 1000)])):
        try:
            p = subprocess.run(cmd, input=smt2, stdout=subprocess.PIPE, stderr=subprocess.PIPE, universal_newlines=True, timeout=timeout + 30)
            lines = [l.strip() for l in p.stdout.splitlines() if l.strip()]
            ans = [l for l in lines if l in ("sat", "unsat", "unknown")]
            out[name] = "error" if any("(error" in l for l in lines) or not ans else ans[0]
        except Exception as e:  # noqa
            out[name] = "error"
    return out


def validate(pieces, args, real):
    """can the encoding (some date) produce exactly these bytes? -> 'sat' / 'unsat' / ..."""
    ndate = len([a for a in args if a[0] == "date"])
    fixed = len(response_bytes(pieces, args, []))
    L = (len(real) - fixed) // ndate if ndate else 0
    if L < 0 or L > DATE_MAX or fixed + ndate * L != len(real):
        return "unsat", L, 0.0
    date = [z3.BitVec("d%d" % k, 8) for k in range(L)]
    r = response_bytes(pieces, args, date)
    s = z3.Solver()
    s.set("timeout", 60000)
    for d in date:
        s.add(d != 10, d != 13)
    s.add(tobool(s_and(*[b_eq(r[k], real[k]) for k in range(len(real))])))
    t0 = time.time()
    ok = str(s.check())
    return ok, L, time.time() - t0


def main():
    path, real_hex = sys.argv[1], sys.argv[2]
    cross = "crosscheck" in sys.argv[3:]
    out = {"solver": "z3 " + z3.get_version_string(), "queries": [], "inconclusive": [], "violations": [], "encoded": None,
           "date_max": DATE_MAX, "crosscheck": [], "variants": []}
    t_all = time.time()
    try:
        pieces, args, choices = extract(open(path).read())
        vs = variants(args, choices)
    except Unsupported as e:
        out["inconclusive"].append("translator refuses this source: %s" % e)
        print(json.dumps(out))
        return
    out["encoded"] = {"pieces": pieces, "args": [[a[0], a[-1]] if a[0] != "date" else ["date"] for a in args]}
    out["variants"] = [v[0] for v in vs]
    solver_s = 0.0
    encode_s = 0.0
    # ---- translator validation: every real response must be producible by SOME variant
    if real_hex != "-":
        for k, rh in enumerate(real_hex.split(",")):
            if rh == "none":
                out["queries"].append({"name": "validate", "request": k, "result": "none"})
                out["inconclusive"].append("the real function did not answer request #%d of the validation set" % k)
                continue
            real = bytes.fromhex(rh)
            ok, L, which = "unsat", None, None
            for label, conc in vs:
                r1, L1, dt = validate(pieces, conc, real)
                solver_s += dt
                if r1 == "sat":
                    ok, L, which = "sat", L1, label
                    break
                if r1 not in ("sat", "unsat"):
                    ok = r1
            out["queries"].append({"name": "validate", "request": k, "length": L, "result": ok, "variant": which})
            if ok != "sat":
                out["inconclusive"].append("validation query answered %s: no variant of the encoding can produce the %d bytes the real function returned for request #%d" % (ok, len(real), k))
    # ---- the property, one group of queries per variant and date length
    for label, conc in vs:
        for L in range(0, DATE_MAX + 1):
            t0 = time.time()
            date = [z3.BitVec("d%d" % k, 8) for k in range(L)]
            r = response_bytes(pieces, conc, date)
            terms = analyse(r)
            encode_s += time.time() - t0
            s = z3.Solver()
            s.set("timeout", 60000)
            for d in date:
                s.add(d != 10, d != 13)
            for name in ("status_line", "blank_line", "www_authenticate", "content_length_present", "content_length_equals_body"):
                t = terms[name]
                s.push()
                s.add(z3.Not(tobool(t)))
                t0 = time.time()
                res = str(s.check())
                dt = time.time() - t0
                solver_s += dt
                q = {"name": name, "length": L, "result": res, "solver_s": round(dt, 3), "variant": label}
                if res == "sat":
                    m = s.model()
                    dbytes = bytes([m.eval(d, model_completion=True).as_long() for d in date])
                    q["date_hex"] = dbytes.hex()
                    if not [v for v in out["violations"] if v["name"] == name and v["variant"] == label]:
                        out["violations"].append({"name": name, "what": WHAT[name], "date_hex": dbytes.hex(), "length": L, "variant": label})
                elif res != "unsat":
                    out["inconclusive"].append("query %s at date length %d answered %s" % (name, L, res))
                if cross and L in (0, 31, DATE_MAX) and name == "content_length_equals_body":
                    cc = crosscheck("(set-logic QF_BV)\n" + s.to_smt2())
                    out["crosscheck"].append({"name": name, "length": L, "z3": res, **cc})
                    for k, v in cc.items():
                        if v != res:
                            out["inconclusive"].append("solvers disagree on %s at date length %d: z3 %s, %s %s" % (name, L, res, k, v))
                s.pop()
                out["queries"].append(q)
            if L == 31:
                # vacuity: the assumptions on the date are satisfiable
                t0 = time.time()
                res = str(s.check())
                solver_s += time.time() - t0
                out["queries"].append({"name": "witness", "length": L, "result": res, "variant": label})
                if res != "sat":
                    out["inconclusive"].append("assumptions on the date unsatisfiable")
    out["solver_s"] = round(solver_s, 2)
    out["encode_s"] = round(encode_s, 2)
    out["total_s"] = round(time.time() - t_all, 2)
    print(json.dumps(out))


if __name__ == "__main__":
    main()
