#!/usr/bin/env python3
"""Prints the markdown table of seeded defects and what detected them (from seeded/*/meta.json)."""
import glob, json, os
rows = []
for f in sorted(glob.glob(os.path.join(os.path.dirname(os.path.dirname(os.path.abspath(__file__))), "seeded", "*", "meta.json"))):
    m = json.load(open(f))
    runs = m.get("runs", {})
    det = []
    for prop, r in runs.items():
        if r["exit"] == 1:
            hs = sorted(set(v.split("replay=")[-1].split("/")[-1].replace(".json", "").split("-", 1)[-1] for v in r["violations"]))
            det.append("%s %s: %s (%ss)" % (prop, r["tier"], ", ".join(hs), r["wall_s"]))
        else:
            det.append("%s %s: exit %s" % (prop, r["tier"], r["exit"]))
    rows.append("| %s | %s | %s | %s |" % (m["name"], m["property"], m["needs_to_manifest"], "; ".join(det) or "not run"))
print("| seeded defect | property | what it needs to manifest | detected by (registered check, replayed natively) |")
print("|---|---|---|---|")
print("\n".join(rows))
