"""Driver glue for the C10 z3 table engine: runs lib/c10_z3.py (under python3-vt, which has
the z3 bindings) on the tables dumped from /repo's current tree, replays every witness through
the REAL matcher natively, and folds the outcome into the verdict and the evidence."""
import json
import os
import re
import subprocess
import time

import overlay as ov_mod
from overlay import InfraError, log, sh, VERIF


class PseudoHarness(object):
    def __init__(self):
        self.name = "c10_z3_tables"
        self.encodes = ["PROTO_SMACK transition tables = output of the real proto_init() -> smack::Smack::compile() of this tree (dumped natively)",
                        "step relation of smack::Smack::search_next / search_next_end (tied to the real code by c10_smack_step_proto)"]
        self.bounds = ["all payloads of 0..=29 bytes (every byte symbolic), stream mode and datagram mode: 60 z3 queries (QF_BV, bit-blasted: the tables are multiplexer trees); "
                       "length lemma: after 29 unmatched bytes no match is reachable and END matches nothing, so 29 bytes decide every length"]
        self.stubs = []
        self.assumes = ["reference = the published signature set hard-coded in lib/c10_z3.py from the property text ('*' = any byte, END-anchored STUN shapes only for datagrams of exactly that length, first completed signature wins)"]
        self.out = ["what the responders do with a dispatched payload (decided per responder: C13-C18)"]
        self.covers = []
        self.known = []
        self.file = os.path.join(VERIF, "lib", "c10_z3.py")


def native_real_id(ovdir, witness_hex, mode):
    rc, out, wall = sh(["cargo", "test", "--offline", "--bin", "masscanned", "verif_c10_replay", "--", "--exact",
                        "proto::verif_c10_replay::verif_c10_replay", "--nocapture"],
                       cwd=ovdir, env={"CARGO_TARGET_DIR": ov_mod.NATIVE_TARGET, "VERIF_C10_WITNESS": witness_hex,
                                       "VERIF_C10_MODE": mode, "RUSTFLAGS": "-Awarnings"}, timeout=1200, check=False)
    m = re.search(r"VERIF_C10_REAL=(\w+)", out)
    if not m:
        raise InfraError("C10 native replay did not run:\n" + out[-3000:])
    return None if m.group(1) == "none" else int(m.group(1))


def ref_id(witness_hex, mode):
    import importlib.util
    spec = importlib.util.spec_from_file_location("c10_z3", os.path.join(VERIF, "lib", "c10_z3.py"))
    mod = importlib.util.module_from_spec(spec)
    spec.loader.exec_module(mod)
    return mod.ref_dispatch(bytes.fromhex(witness_hex), mode == "datagram")


def run_c10(ovdir, scratch, info, known, known_keys, tier, results, verdict, sel):
    if "tables" not in info:
        info["tables"] = ov_mod.dump_tables(ovdir, info["repo_src_sha256"])
    budget = 600 if tier == "quick" else 1500
    kk = ",".join(sorted(k for k in known_keys if k.startswith("c10.")))
    t0 = time.time()
    p = subprocess.run(["python3-vt", os.path.join(VERIF, "lib", "c10_z3.py"), info["tables"]["path"], str(budget), "all", kk],
                       stdout=subprocess.PIPE, stderr=subprocess.PIPE, universal_newlines=True, timeout=budget + 300)
    wall = time.time() - t0
    ph = PseudoHarness()
    res = {"harness": ph.name, "status": None, "failed": [], "covers": {}, "stats": {}, "props": {}, "duration_s": round(wall, 1)}
    results[ph.name] = res
    sel.append(ph)
    try:
        out = json.loads(p.stdout)
    except Exception:
        res["status"] = "inconclusive"
        verdict.inconclusive.append("c10_z3_tables: engine produced no result: %s" % (p.stderr[-1500:]))
        return
    nq = len(out["queries"]) + 1
    unsat = len([q for q in out["queries"] if q["result"] == "unsat"]) + (1 if out.get("length_lemma", {}).get("result") == "unsat" else 0)
    res["props"] = {"total_properties": nq, "passed": unsat}
    res["n_checks"] = nq
    res["stats"] = {"runtime_decision_procedure_s": round(sum(q["solver_s"] for q in out["queries"]), 2),
                    "runtime_symex_s": out.get("encode_s"), "vccs_generated": nq}
    res["sample_checks"] = [{"description": "z3 %s mode, payload length %d: real matcher decision != reference decision (outside listed classes)" % (q["mode"], q["length"]),
                             "status": q["result"], "at": "lib/c10_z3.py"} for q in out["queries"][-3:]]
    res["z3"] = {"length_lemma": out.get("length_lemma"), "classes": out.get("classes"), "known_hit": out.get("known_hit"),
                 "total_s": out.get("total_s"), "tables": out.get("tables")}
    for key, hit in (out.get("known_hit") or {}).items():
        if hit:
            res["covers"]["class still present: " + key] = "Satisfied"
            if key in known_keys:
                kf = [k for k in known if k["key"] == key][0]
                line = "KNOWN-FINDING: property=C10 %s: %s (e.g. payload %s)" % (key, kf["what"], hit["witness"])
                if line not in verdict.known_lines:
                    verdict.known_lines.append(line)
    res["covers"]["z3 queries answered"] = "Satisfied" if out["queries"] else "Unsatisfiable"
    if out.get("inconclusive"):
        res["status"] = "inconclusive"
        verdict.inconclusive.append("c10_z3_tables: %s" % out["inconclusive"][:2])
    viol = out.get("violations") or []
    if viol:
        res["status"] = "failed"
        os.makedirs(os.path.join(VERIF, "replays"), exist_ok=True)
        for v in viol[:3]:
            real = native_real_id(ovdir, v["witness"], v["mode"])
            ref = ref_id(v["witness"], v["mode"])
            path = os.path.join(VERIF, "replays", "C10-z3-%s-%d.json" % (v["mode"], v["length"]))
            rep = {"property": "C10", "engine": "z3", "mode": v["mode"], "witness": v["witness"], "model_real": v["real"],
                   "native_real": real, "reference": ref, "repo_head": info.get("repo_head"),
                   "reproduced": real != ref}
            json.dump(rep, open(path, "w"), indent=1)
            res["failed"].append({"description": "C10: matcher decision %s differs from the signature-set decision %s for payload %s (%s mode)" % (real, ref, v["witness"], v["mode"]),
                                  "at": "lib/c10_z3.py", "category": "z3"})
            if rep["reproduced"]:
                verdict.violations.append({"harness": ph.name, "replay": path, "failed": res["failed"][-1:]})
            else:
                verdict.inconclusive.append("c10_z3_tables: z3 witness %s did not reproduce on the real matcher (model %s, native %s, reference %s)" % (
                    v["witness"], v["real"], real, ref))
    elif res["status"] is None:
        res["status"] = "success"
        verdict.passed.append(ph.name)


class PseudoHarnessC12(object):
    def __init__(self):
        self.name = "c12_z3_rpc_calls_only"
        self.encodes = ["PROTO_SMACK transition tables = output of the real proto_init() -> smack::Smack::compile() of this tree (dumped natively)",
                        "step relation of smack::Smack::search_next / search_next_end (tied to the real code by c10_smack_step_proto)"]
        self.bounds = ["all payloads of 0..=29 bytes (every byte symbolic), stream mode and datagram mode: 60 z3 queries (QF_BV): whenever the real matcher "
                       "identifies ONC-RPC (UDP or TCP form) the message-type word of the payload is 0 (CALL); no class of payloads is excluded; "
                       "two witnesses show that each RPC responder is reachable; longer payloads: the length lemma of c10_z3_tables"]
        self.stubs = []
        self.assumes = ["the dispatcher hands a payload to rpc::repl_udp / repl_tcp only when the matcher identified that protocol (proto::repl, decided by c10_dispatch_*)"]
        self.out = ["what the RPC responder does with a message type other than 0 if it were ever handed one (it does not look at the field)"]
        self.covers = []
        self.known = []
        self.file = os.path.join(VERIF, "lib", "c10_z3.py")


def run_c12_rpc(ovdir, scratch, info, tier, results, verdict, sel):
    """C12, ONC-RPC part: reply-typed ONC-RPC messages are never handed to the RPC responders."""
    if "tables" not in info:
        info["tables"] = ov_mod.dump_tables(ovdir, info["repo_src_sha256"])
    budget = 600
    t0 = time.time()
    p = subprocess.run(["python3-vt", os.path.join(VERIF, "lib", "c10_z3.py"), info["tables"]["path"], str(budget), "c12"],
                       stdout=subprocess.PIPE, stderr=subprocess.PIPE, universal_newlines=True, timeout=budget + 300)
    ph = PseudoHarnessC12()
    res = {"harness": ph.name, "status": None, "failed": [], "covers": {}, "stats": {}, "props": {}, "duration_s": round(time.time() - t0, 1)}
    results[ph.name] = res
    sel.append(ph)
    try:
        out = json.loads(p.stdout)
    except Exception:
        res["status"] = "inconclusive"
        verdict.inconclusive.append("c12_z3_rpc_calls_only: engine produced no result: %s" % (p.stderr[-1500:]))
        return
    qs = out["queries"]
    good = len([q for q in qs if (q["mode"] == "witness" and q["result"] == "sat") or (q["mode"] != "witness" and q["result"] == "unsat")])
    res["props"] = {"total_properties": len(qs), "passed": good}
    res["n_checks"] = len(qs)
    res["stats"] = {"runtime_decision_procedure_s": round(sum(q.get("solver_s", 0) for q in qs), 2), "runtime_symex_s": out.get("encode_s"),
                    "vccs_generated": len(qs)}
    res["sample_checks"] = [{"description": "z3 %s mode, payload length %s: matcher identifies ONC-RPC although the message-type word is not CALL" % (q["mode"], q["length"]),
                             "status": q["result"], "at": "lib/c10_z3.py"} for q in qs[-5:-2]]
    res["covers"]["each RPC responder reachable"] = "Satisfied" if all(q["result"] == "sat" for q in qs if q["mode"] == "witness") and any(q["mode"] == "witness" for q in qs) else "Unsatisfiable"
    if out.get("violations"):
        res["status"] = "failed"
        os.makedirs(os.path.join(VERIF, "replays"), exist_ok=True)
        v = out["violations"][0]
        real = native_real_id(ovdir, v["witness"], v["mode"])
        w = bytes.fromhex(v["witness"])
        is_call = (real == 6 and w[4:8] == b"\x00" * 4) or (real == 5 and w[8:12] == b"\x00" * 4)
        path = os.path.join(VERIF, "replays", "C12-z3-rpc-%s-%d.json" % (v["mode"], v["length"]))
        rep = {"property": "C12", "engine": "z3", "mode": v["mode"], "witness": v["witness"], "model_real": v["real"], "native_real": real,
               "reference": None, "repo_head": info.get("repo_head"), "reproduced": real in (5, 6) and not is_call, "kind": "c12-rpc"}
        json.dump(rep, open(path, "w"), indent=1)
        res["failed"].append({"description": "C12: payload %s (%s mode) is identified as ONC-RPC (id %s) although its message type is not CALL" % (v["witness"], v["mode"], real),
                              "at": "lib/c10_z3.py", "category": "z3"})
        if rep["reproduced"]:
            verdict.violations.append({"harness": ph.name, "replay": path, "failed": res["failed"][-1:]})
        else:
            verdict.inconclusive.append("c12_z3_rpc_calls_only: z3 witness %s did not reproduce on the real matcher (native id %s)" % (v["witness"], real))
    elif out.get("inconclusive"):
        res["status"] = "inconclusive"
        verdict.inconclusive.append("c12_z3_rpc_calls_only: %s" % out["inconclusive"][:2])
    else:
        res["status"] = "success"
        verdict.passed.append(ph.name)
