// Helpers shared by the harness modules (overlay only, cfg(kani)).
use crate::client::ClientInfo;
use crate::logger::MetaLogger;
use crate::Masscanned;
use pnet::util::MacAddr;
use std::net::{IpAddr, Ipv4Addr, Ipv6Addr};

pub fn any_mac() -> MacAddr {
    let m: [u8; 6] = kani::any();
    MacAddr::from(m)
}
pub fn any_ip4() -> Ipv4Addr {
    let a: [u8; 4] = kani::any();
    Ipv4Addr::from(a)
}
pub fn any_ip6() -> Ipv6Addr {
    let a: [u8; 16] = kani::any();
    Ipv6Addr::from(a)
}

/// Masscanned context without self-IP list, deny list or loggers.
pub fn ms_plain<'a>(key: [u64; 2], mac: MacAddr) -> Masscanned<'a> {
    Masscanned {
        synack_key: key,
        mac,
        iface: None,
        self_ip_list: None,
        remote_ip_deny_list: None,
        log: MetaLogger::new(),
    }
}

/// one's-complement sum of 16-bit big-endian words (odd tail padded with zero)
pub fn ones_sum(d: &[u8]) -> u32 {
    let mut s: u32 = 0;
    let mut i = 0;
    while i + 1 < d.len() {
        s += ((d[i] as u32) << 8) | d[i + 1] as u32;
        i += 2;
    }
    if i < d.len() {
        s += (d[i] as u32) << 8;
    }
    s
}
pub fn fold16(mut s: u32) -> u16 {
    // three folds suffice for any u32
    s = (s >> 16) + (s & 0xffff);
    s = (s >> 16) + (s & 0xffff);
    s = (s >> 16) + (s & 0xffff);
    s as u16
}
/// true iff `d` (which includes its checksum field) sums to 0xffff together with `pseudo`
pub fn csum_ok(pseudo: u32, d: &[u8]) -> bool {
    fold16(pseudo + ones_sum(d)) == 0xffff
}
pub fn pseudo4(src: &[u8], dst: &[u8], proto: u8, len: usize) -> u32 {
    ones_sum(src) + ones_sum(dst) + proto as u32 + len as u32
}
pub fn pseudo6(src: &[u8], dst: &[u8], next: u8, len: usize) -> u32 {
    ones_sum(src) + ones_sum(dst) + next as u32 + (len as u32 >> 16) + (len as u32 & 0xffff)
}

// ------------------------------------------------------------------------------------------
// Contract stub for `proto::repl` (the application layer as seen from layer 4), with a
// recorder.  Contract (each clause is what the responder lemmas establish or weaker):
//  * returns None or Some(non-empty reply) - here 1..=3 arbitrary bytes;
//  * never touches client_info.port.src; may rewrite client_info.port.dst (STUN change-port);
//  * touches no other field of client_info.
// ------------------------------------------------------------------------------------------
pub struct ProtoRec {
    pub calls: u32,
    pub tcb_some: bool,
    pub data_len: usize,
    pub data: [u8; 8],
    pub reply_len: usize, // 0 = None
    pub reply: [u8; 3],
    pub transport: Option<pnet::packet::ip::IpNextHeaderProtocol>,
    pub cookie: Option<u32>,
    /// configured by the harness (CONCRETE per instance): length of the reply when the stub
    /// answers; whether it answers at all stays symbolic
    pub cfg_reply_len: usize,
    /// smack_state found in the control block handed to the stub (C08: whose block is it?)
    pub tcb_seen_state: usize,
}
pub static mut PROTO_REC: ProtoRec = ProtoRec {
    calls: 0,
    tcb_some: false,
    data_len: 0,
    data: [0; 8],
    reply_len: 0,
    reply: [0; 3],
    transport: None,
    cookie: None,
    cfg_reply_len: 2,
    tcb_seen_state: 0,
};
pub const STUB_MARK: usize = 0x00AB_CDEF;
pub fn proto_rec() -> &'static mut ProtoRec {
    unsafe { &mut *std::ptr::addr_of_mut!(PROTO_REC) }
}
pub fn proto_repl_stub<'a>(
    data: &'a [u8],
    _m: &Masscanned,
    ci: &mut ClientInfo,
    tcb: Option<&mut crate::proto::TCPControlBlock>,
) -> Option<Vec<u8>> {
    let rec = proto_rec();
    rec.calls += 1;
    rec.tcb_some = tcb.is_some();
    if let Some(t) = tcb {
        rec.tcb_seen_state = t.smack_state;
        // leave a mark in the block we were given: a write into a foreign flow's block is detected
        t.smack_state = STUB_MARK;
    }
    rec.data_len = data.len();
    let mut i = 0;
    while i < data.len() && i < 8 {
        rec.data[i] = data[i];
        i += 1;
    }
    rec.transport = ci.transport;
    rec.cookie = ci.cookie;
    if kani::any() {
        ci.port.dst = Some(kani::any());
    }
    if kani::any() {
        let n = rec.cfg_reply_len;
        let b: [u8; 3] = kani::any();
        rec.reply_len = n;
        rec.reply = b;
        let mut v = Vec::with_capacity(4);
        let mut i = 0;
        while i < n {
            v.push(b[i]);
            i += 1;
        }
        Some(v)
    } else {
        rec.reply_len = 0;
        None
    }
}

// ------------------------------------------------------------------------------------------
// Contract stub for `synackcookie::generate` in the layer-4 harnesses: a deterministic
// function of (src ip, dst ip, src port, dst port, key) is modelled, for the single flow a
// harness looks at, by ONE arbitrary u32 drawn in the harness prologue; the arguments of
// every call are recorded so that the harness can assert that tcp::repl asked for exactly the
// frame's own 4-tuple and key.  That `generate` really is such a function (and equals
// SipHash-2-4) is decided on the real code by the c06_cookie_* harnesses.
// ------------------------------------------------------------------------------------------
pub struct CookieRec {
    pub value: u32,
    pub calls: u32,
    pub args_ok: bool,
    pub ip: crate::client::ClientInfoSrcDst<IpAddr>,
    pub sport: u16,
    pub dport: u16,
    pub key: [u64; 2],
}
pub static mut COOKIE_REC: CookieRec = CookieRec {
    value: 0,
    calls: 0,
    args_ok: true,
    ip: crate::client::ClientInfoSrcDst { src: None, dst: None },
    sport: 0,
    dport: 0,
    key: [0, 0],
};
pub fn cookie_rec() -> &'static mut CookieRec {
    unsafe { &mut *std::ptr::addr_of_mut!(COOKIE_REC) }
}
pub fn generate_stub(ci: &ClientInfo, key: &[u64; 2]) -> Result<u32, std::io::Error> {
    let rec = cookie_rec();
    rec.calls += 1;
    if !(ip_eq(&ci.ip.src, &rec.ip.src) && ip_eq(&ci.ip.dst, &rec.ip.dst) && ci.port.src == Some(rec.sport) && ci.port.dst == Some(rec.dport) && *key == rec.key) {
        rec.args_ok = false;
    }
    Ok(rec.value)
}
/// IpAddr equality without the memcmp loop (keeps unwind bounds independent of address size)
pub fn ip_eq(a: &Option<IpAddr>, b: &Option<IpAddr>) -> bool {
    match (a, b) {
        (None, None) => true,
        (Some(IpAddr::V4(x)), Some(IpAddr::V4(y))) => u32::from(*x) == u32::from(*y),
        (Some(IpAddr::V6(x)), Some(IpAddr::V6(y))) => u128::from(*x) == u128::from(*y),
        _ => false,
    }
}

// ------------------------------------------------------------------------------------------
// Contract stubs for the layer-4 entry points as seen from layer 3: each returns None or a
// packet of CONCRETE length `cfg_len` (set by the harness) whose bytes are all arbitrary
// (the harness oracle must hold for every transport packet, well-formed or not).
// ------------------------------------------------------------------------------------------
pub const L4_MAX: usize = 40;
pub struct L4Rec {
    pub calls: u32,
    pub cfg_len: usize,
    pub some: bool,
    pub bytes: [u8; L4_MAX],
    pub req_len: usize,
    pub nd_target: Option<Ipv6Addr>,
    /// event sequence number (counting logger) when the stub was called
    pub seq_at_call: u32,
    /// harness-configured: the self-IP list is present and contains `cfg_s6`
    pub cfg_s6: Option<Ipv6Addr>,
}
pub static mut L4_REC: L4Rec = L4Rec {
    calls: 0,
    cfg_len: 8,
    some: false,
    bytes: [0; L4_MAX],
    req_len: 0,
    nd_target: None,
    seq_at_call: 0,
    cfg_s6: None,
};
pub fn l4_rec() -> &'static mut L4Rec {
    unsafe { &mut *std::ptr::addr_of_mut!(L4_REC) }
}
fn l4_bytes() -> Option<Vec<u8>> {
    let rec = l4_rec();
    rec.calls += 1;
    rec.seq_at_call = unsafe {
        EV_SEQ += 1;
        EV_SEQ
    };
    if kani::any() {
        let b: [u8; L4_MAX] = kani::any();
        rec.bytes = b;
        rec.some = true;
        let n = rec.cfg_len;
        let mut v = Vec::with_capacity(L4_MAX);
        let mut i = 0;
        while i < n {
            v.push(b[i]);
            i += 1;
        }
        Some(v)
    } else {
        rec.some = false;
        None
    }
}
pub fn l4_tcp_stub<'a, 'b>(
    req: &'a pnet::packet::tcp::TcpPacket,
    _m: &Masscanned,
    _ci: &mut ClientInfo,
) -> Option<pnet::packet::tcp::MutableTcpPacket<'b>> {
    use pnet::packet::Packet;
    l4_rec().req_len = req.packet().len();
    match l4_bytes() {
        Some(v) => pnet::packet::tcp::MutableTcpPacket::owned(v),
        None => None,
    }
}
pub fn l4_udp_stub<'a, 'b>(
    req: &'a pnet::packet::udp::UdpPacket,
    _m: &Masscanned,
    _ci: &mut ClientInfo,
) -> Option<pnet::packet::udp::MutableUdpPacket<'b>> {
    use pnet::packet::Packet;
    l4_rec().req_len = req.packet().len();
    match l4_bytes() {
        Some(v) => {
            // contract of udp::repl (lemma c03_udp_*): the length field is the datagram length
            let n = v.len();
            let mut p = pnet::packet::udp::MutableUdpPacket::owned(v).unwrap();
            p.set_length(n as u16);
            Some(p)
        }
        None => None,
    }
}
pub fn l4_icmpv4_stub<'a, 'b>(
    req: &'a pnet::packet::icmp::IcmpPacket,
    _m: &Masscanned,
    _ci: &ClientInfo,
) -> Option<pnet::packet::icmp::MutableIcmpPacket<'b>> {
    use pnet::packet::Packet;
    l4_rec().req_len = req.packet().len();
    match l4_bytes() {
        Some(v) => pnet::packet::icmp::MutableIcmpPacket::owned(v),
        None => None,
    }
}
/// ICMPv6 contract (lemmas c05_icmp6_*): (None, None), or an echo reply with no substituted
/// address, or a Neighbour Advertisement (type 136) together with the solicited target, which
/// belongs to the self-IP list whenever one is configured.
pub fn l4_icmpv6_stub<'a, 'b>(
    req: &'a pnet::packet::icmpv6::Icmpv6Packet,
    _m: &Masscanned,
    _ci: &ClientInfo,
) -> (Option<pnet::packet::icmpv6::MutableIcmpv6Packet<'b>>, Option<Ipv6Addr>) {
    use pnet::packet::Packet;
    l4_rec().req_len = req.packet().len();
    match l4_bytes() {
        Some(mut v) => {
            if kani::any() {
                v[0] = 136;
                let t = match l4_rec().cfg_s6 {
                    Some(a) => a,
                    None => any_ip6(),
                };
                l4_rec().bytes[0] = 136;
                l4_rec().nd_target = Some(t);
                (pnet::packet::icmpv6::MutableIcmpv6Packet::owned(v), Some(t))
            } else {
                kani::assume(v[0] != 136);
                l4_rec().nd_target = None;
                (pnet::packet::icmpv6::MutableIcmpv6Packet::owned(v), None)
            }
        }
        None => (None, None),
    }
}

// ------------------------------------------------------------------------------------------
// Contract stubs for the layer-3 / ARP entry points as seen from layer 2 (same recorder).
// ------------------------------------------------------------------------------------------
pub fn l3_arp_stub<'a, 'b>(
    req: &'a pnet::packet::arp::ArpPacket,
    _m: &Masscanned,
) -> Option<pnet::packet::arp::MutableArpPacket<'b>> {
    use pnet::packet::Packet;
    l4_rec().req_len = req.packet().len();
    match l4_bytes() {
        Some(v) => pnet::packet::arp::MutableArpPacket::owned(v),
        None => None,
    }
}
/// contract of ipv4::repl (lemma c04_ipv4_*): version 4, IHL >= 5, header inside the packet
pub fn l3_ipv4_stub<'a, 'b>(
    req: &'a pnet::packet::ipv4::Ipv4Packet,
    _m: &Masscanned,
    _ci: &mut ClientInfo,
) -> Option<pnet::packet::ipv4::MutableIpv4Packet<'b>> {
    use pnet::packet::Packet;
    l4_rec().req_len = req.packet().len();
    match l4_bytes() {
        Some(v) => {
            let ihl = (v[0] & 0x0f) as usize;
            kani::assume(v[0] >> 4 == 4 && ihl >= 5 && 4 * ihl <= v.len());
            pnet::packet::ipv4::MutableIpv4Packet::owned(v)
        }
        None => None,
    }
}
pub fn l3_ipv6_stub<'a, 'b>(
    req: &'a pnet::packet::ipv6::Ipv6Packet,
    _m: &Masscanned,
    _ci: &mut ClientInfo,
) -> Option<pnet::packet::ipv6::MutableIpv6Packet<'b>> {
    use pnet::packet::Packet;
    l4_rec().req_len = req.packet().len();
    match l4_bytes() {
        Some(v) => pnet::packet::ipv6::MutableIpv6Packet::owned(v),
        None => None,
    }
}

/// Straight-line replacement for `<MacAddr as FromStr>::from_str` on the fixed-format
/// literal the code parses ("xx:xx:xx:xx:xx:xx"); the real parser drags memchr loops into
/// every layer-2 harness (measured: 145 s of symbolic execution for a constant).
pub fn mac_from_str_stub(s: &str) -> Result<MacAddr, pnet::util::ParseMacAddrErr> {
    let b = s.as_bytes();
    fn hx(c: u8) -> u8 {
        if c >= b'a' {
            c - b'a' + 10
        } else if c >= b'A' {
            c - b'A' + 10
        } else {
            c - b'0'
        }
    }
    if b.len() != 17 {
        return Err(pnet::util::ParseMacAddrErr::TooFewComponents);
    }
    Ok(MacAddr::new(
        hx(b[0]) * 16 + hx(b[1]),
        hx(b[3]) * 16 + hx(b[4]),
        hx(b[6]) * 16 + hx(b[7]),
        hx(b[9]) * 16 + hx(b[10]),
        hx(b[12]) * 16 + hx(b[13]),
        hx(b[15]) * 16 + hx(b[16]),
    ))
}

/// Clock contract: an arbitrary instant between the Unix epoch and the year 2500.
pub fn system_time_now_stub() -> std::time::SystemTime {
    let s: u64 = kani::any();
    kani::assume(s < 16_725_225_600);
    std::time::SystemTime::UNIX_EPOCH + std::time::Duration::from_secs(s)
}

// ------------------------------------------------------------------------------------------
// Counting logger (C20): implements the real `Logger` trait and is boxed into the real
// `MetaLogger`; records per layer how many recv / send / drop events were emitted, a global
// sequence number of the first recv and of the terminal event, and the ClientInfo shown.
// ------------------------------------------------------------------------------------------
pub const L_ARP: usize = 0;
pub const L_ETH: usize = 1;
pub const L_IPV4: usize = 2;
pub const L_IPV6: usize = 3;
pub const L_ICMPV4: usize = 4;
pub const L_ICMPV6: usize = 5;
pub const L_TCP: usize = 6;
pub const L_UDP: usize = 7;
#[derive(Copy, Clone)]
pub struct Ev {
    pub recv: u32,
    pub send: u32,
    pub drop: u32,
    pub seq_recv: u32,
    pub seq_term: u32,
    pub ci_recv: Option<ClientInfo>,
    pub ci_term: Option<ClientInfo>,
}
const EV0: Ev = Ev { recv: 0, send: 0, drop: 0, seq_recv: 0, seq_term: 0, ci_recv: None, ci_term: None };
pub static mut EV: [Ev; 8] = [EV0; 8];
pub static mut EV_SEQ: u32 = 0;
pub fn ev(l: usize) -> &'static mut Ev {
    unsafe { &mut (*std::ptr::addr_of_mut!(EV))[l] }
}
fn seq() -> u32 {
    unsafe {
        EV_SEQ += 1;
        EV_SEQ
    }
}
fn on_recv(l: usize, c: Option<&ClientInfo>) {
    let e = ev(l);
    e.recv += 1;
    if e.recv == 1 {
        e.seq_recv = seq();
        e.ci_recv = c.copied();
    }
}
fn on_term(l: usize, send: bool, c: Option<&ClientInfo>) {
    let e = ev(l);
    if send {
        e.send += 1;
    } else {
        e.drop += 1;
    }
    e.seq_term = seq();
    e.ci_term = c.copied();
}
/// exactly one recv, then exactly one terminal event, which is `send` iff a reply was produced
pub fn balanced(l: usize, replied: bool) -> bool {
    let e = ev(l);
    e.recv == 1 && e.send + e.drop == 1 && (e.send == 1) == replied && e.seq_recv < e.seq_term
}
pub fn untouched(l: usize) -> bool {
    let e = ev(l);
    e.recv == 0 && e.send == 0 && e.drop == 0
}
pub struct CountLogger;
impl crate::logger::Logger for CountLogger {
    fn init(&self) {}
    fn arp_recv(&self, _p: &pnet::packet::arp::ArpPacket) { on_recv(L_ARP, None) }
    fn arp_drop(&self, _p: &pnet::packet::arp::ArpPacket) { on_term(L_ARP, false, None) }
    fn arp_send(&self, _p: &pnet::packet::arp::MutableArpPacket) { on_term(L_ARP, true, None) }
    fn eth_recv(&self, _p: &pnet::packet::ethernet::EthernetPacket, c: &ClientInfo) { on_recv(L_ETH, Some(c)) }
    fn eth_drop(&self, _p: &pnet::packet::ethernet::EthernetPacket, c: &ClientInfo) { on_term(L_ETH, false, Some(c)) }
    fn eth_send(&self, _p: &pnet::packet::ethernet::MutableEthernetPacket, c: &ClientInfo) { on_term(L_ETH, true, Some(c)) }
    fn ipv4_recv(&self, _p: &pnet::packet::ipv4::Ipv4Packet, c: &ClientInfo) { on_recv(L_IPV4, Some(c)) }
    fn ipv4_drop(&self, _p: &pnet::packet::ipv4::Ipv4Packet, c: &ClientInfo) { on_term(L_IPV4, false, Some(c)) }
    fn ipv4_send(&self, _p: &pnet::packet::ipv4::MutableIpv4Packet, c: &ClientInfo) { on_term(L_IPV4, true, Some(c)) }
    fn ipv6_recv(&self, _p: &pnet::packet::ipv6::Ipv6Packet, c: &ClientInfo) { on_recv(L_IPV6, Some(c)) }
    fn ipv6_drop(&self, _p: &pnet::packet::ipv6::Ipv6Packet, c: &ClientInfo) { on_term(L_IPV6, false, Some(c)) }
    fn ipv6_send(&self, _p: &pnet::packet::ipv6::MutableIpv6Packet, c: &ClientInfo) { on_term(L_IPV6, true, Some(c)) }
    fn icmpv4_recv(&self, _p: &pnet::packet::icmp::IcmpPacket, c: &ClientInfo) { on_recv(L_ICMPV4, Some(c)) }
    fn icmpv4_drop(&self, _p: &pnet::packet::icmp::IcmpPacket, c: &ClientInfo) { on_term(L_ICMPV4, false, Some(c)) }
    fn icmpv4_send(&self, _p: &pnet::packet::icmp::MutableIcmpPacket, c: &ClientInfo) { on_term(L_ICMPV4, true, Some(c)) }
    fn icmpv6_recv(&self, _p: &pnet::packet::icmpv6::Icmpv6Packet, c: &ClientInfo) { on_recv(L_ICMPV6, Some(c)) }
    fn icmpv6_drop(&self, _p: &pnet::packet::icmpv6::Icmpv6Packet, c: &ClientInfo) { on_term(L_ICMPV6, false, Some(c)) }
    fn icmpv6_send(&self, _p: &pnet::packet::icmpv6::MutableIcmpv6Packet, c: &ClientInfo) { on_term(L_ICMPV6, true, Some(c)) }
    fn tcp_recv(&self, _p: &pnet::packet::tcp::TcpPacket, c: &ClientInfo) { on_recv(L_TCP, Some(c)) }
    fn tcp_drop(&self, _p: &pnet::packet::tcp::TcpPacket, c: &ClientInfo) { on_term(L_TCP, false, Some(c)) }
    fn tcp_send(&self, _p: &pnet::packet::tcp::MutableTcpPacket, c: &ClientInfo) { on_term(L_TCP, true, Some(c)) }
    fn udp_recv(&self, _p: &pnet::packet::udp::UdpPacket, c: &ClientInfo) { on_recv(L_UDP, Some(c)) }
    fn udp_drop(&self, _p: &pnet::packet::udp::UdpPacket, c: &ClientInfo) { on_term(L_UDP, false, Some(c)) }
    fn udp_send(&self, _p: &pnet::packet::udp::MutableUdpPacket, c: &ClientInfo) { on_term(L_UDP, true, Some(c)) }
}
/// Masscanned context whose MetaLogger holds one CountLogger
pub fn ms_counting<'a>(key: [u64; 2], mac: MacAddr) -> Masscanned<'a> {
    let mut m = ms_plain(key, mac);
    m.log.add(Box::new(CountLogger));
    m
}

/// fixed instant for chrono::Utc::now (the wall clock is outside the model)
pub fn utc_now_stub() -> chrono::DateTime<chrono::Utc> {
    chrono::DateTime::<chrono::Utc>::from_timestamp(0, 0).unwrap()
}

/// Two-flow variant of the cookie contract stub: an arbitrary function of the destination
/// port with two values (flow A: dport == COOKIE2.0 -> COOKIE2.1, every other flow -> COOKIE2.2)
pub static mut COOKIE2: (u16, u32, u32) = (0, 0, 0);
pub fn generate_stub2(ci: &ClientInfo, _key: &[u64; 2]) -> Result<u32, std::io::Error> {
    let c = unsafe { COOKIE2 };
    if ci.port.dst == Some(c.0) {
        Ok(c.1)
    } else {
        Ok(c.2)
    }
}

pub fn rfc2822_stub<Tz: chrono::TimeZone>(_t: &chrono::DateTime<Tz>) -> String
where
    Tz::Offset: std::fmt::Display,
{
    String::from("Sat, 03 Oct 2026 00:00:00 +0000")
}

/// `alloc::fmt::format` replacement where the formatted text is not the subject of the
/// harness (only whether a reply is produced / whether evaluating the arguments panics)
pub fn fmt_format_stub(_args: std::fmt::Arguments<'_>) -> String {
    String::from("HTTP/1.1 401 (formatting stubbed)")
}

/// `log::__private_api::loc()` uses `#[track_caller]` / `Location::caller()`, which Kani cannot
/// model; with a log level that admits a message every harness would fail on that unsupported
/// construct instead of on the code under test.  The stub hands out a dummy location (the log
/// crate's default no-op logger never looks at it); the ARGUMENT expressions of the log macro -
/// the subject of the warn-level harnesses - are still evaluated by the real macro expansion.
pub fn log_loc_stub() -> &'static std::panic::Location<'static> {
    static FAKE: [u64; 8] = [0; 8];
    unsafe { &*(FAKE.as_ptr() as *const std::panic::Location<'static>) }
}

/// `alloc::fmt::format` replacement for the ONC-RPC GETADDR / DUMP bodies: arbitrary printable
/// text of the length chosen by the harness (the same text at every call, calls counted).
/// What is cut: the text itself (address and port rendering); what stays real: everything the
/// responder does with the text (XDR length, padding, list structure).
pub static mut FMT_LEN: usize = 0;
pub static mut FMT_CALLS: usize = 0;
pub static mut FMT_BYTES: [u8; 16] = [0; 16];
pub fn fmt_any_stub(_args: std::fmt::Arguments<'_>) -> String {
    unsafe {
        FMT_CALLS += 1;
        let mut v: std::vec::Vec<u8> = std::vec::Vec::with_capacity(FMT_LEN);
        let mut i = 0;
        while i < FMT_LEN {
            v.push(FMT_BYTES[i]);
            i += 1;
        }
        String::from_utf8_unchecked(v)
    }
}
