// Helpers shared by the harness modules (overlay only, cfg(kani)).
use crate::client::ClientInfo;
use crate::logger::MetaLogger;
use crate::Masscanned;
use pnet::util::MacAddr;
use std::net::{IpAddr, Ipv4Addr, Ipv6Addr};

pub fn any_mac() -> MacAddr {
    let m: [u8; 6] = kani::any();
    MacAddr::from(m)
}
pub fn any_ip4() -> Ipv4Addr {
    let a: [u8; 4] = kani::any();
    Ipv4Addr::from(a)
}
pub fn any_ip6() -> Ipv6Addr {
    let a: [u8; 16] = kani::any();
    Ipv6Addr::from(a)
}

/// Masscanned context without self-IP list, deny list or loggers.
pub fn ms_plain<'a>(key: [u64; 2], mac: MacAddr) -> Masscanned<'a> {
    Masscanned {
        synack_key: key,
        mac,
        iface: None,
        self_ip_list: None,
        remote_ip_deny_list: None,
        log: MetaLogger::new(),
    }
}

/// one's-complement sum of 16-bit big-endian words (odd tail padded with zero)
pub fn ones_sum(d: &[u8]) -> u32 {
    let mut s: u32 = 0;
    let mut i = 0;
    while i + 1 < d.len() {
        s += ((d[i] as u32) << 8) | d[i + 1] as u32;
        i += 2;
    }
    if i < d.len() {
        s += (d[i] as u32) << 8;
    }
    s
}
pub fn fold16(mut s: u32) -> u16 {
    // three folds suffice for any u32
    s = (s >> 16) + (s & 0xffff);
    s = (s >> 16) + (s & 0xffff);
    s = (s >> 16) + (s & 0xffff);
    s as u16
}
/// true iff `d` (which includes its checksum field) sums to 0xffff together with `pseudo`
pub fn csum_ok(pseudo: u32, d: &[u8]) -> bool {
    fold16(pseudo + ones_sum(d)) == 0xffff
}
pub fn pseudo4(src: &[u8], dst: &[u8], proto: u8, len: usize) -> u32 {
    ones_sum(src) + ones_sum(dst) + proto as u32 + len as u32
}
pub fn pseudo6(src: &[u8], dst: &[u8], next: u8, len: usize) -> u32 {
    ones_sum(src) + ones_sum(dst) + next as u32 + (len as u32 >> 16) + (len as u32 & 0xffff)
}
