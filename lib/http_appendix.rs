
// ---- verification appendix (overlay only; appended to src/proto/http.rs by /verif/check) ----
#[cfg(test)]
pub fn verif_http_dump() -> String {
    HTTP_SMACK.verif_dump("http")
}
#[cfg(kani)]
#[allow(dead_code)]
pub fn verif_http_init_stub() -> Smack {
    crate::smack::verif_tables::http_smack()
}

// Native run of the REAL proto::http::repl of this tree (translator validation and replay of
// the C13 response-text engine): request bytes in, response bytes out.
#[cfg(test)]
mod verif_c13_native {
    use super::*;
    use crate::logger::MetaLogger;
    use pnet::util::MacAddr;
    #[test]
    fn verif_c13_native() {
        let all = match std::env::var("VERIF_C13_REQ") {
            Ok(h) => h,
            Err(_) => return,
        };
        let masscanned = Masscanned {
            synack_key: [0, 0],
            mac: MacAddr::new(0, 1, 2, 3, 4, 5),
            iface: None,
            self_ip_list: None,
            remote_ip_deny_list: None,
            log: MetaLogger::new(),
        };
        let ci = ClientInfo::new();
        // comma-separated list of hex-encoded requests, one answer line each (same order)
        for hex in all.split(',') {
            let data: Vec<u8> = (0..hex.len() / 2).map(|i| u8::from_str_radix(&hex[2 * i..2 * i + 2], 16).unwrap()).collect();
            match repl(&data, &masscanned, &ci, None) {
                None => println!("VERIF_C13_RESP=none"),
                Some(r) => {
                    let h: String = r.iter().map(|b| format!("{:02x}", b)).collect();
                    println!("VERIF_C13_RESP={}", h);
                }
            }
        }
    }
}
