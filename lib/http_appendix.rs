
// ---- verification appendix (overlay only; appended to src/proto/http.rs by /verif/check) ----
#[cfg(test)]
pub fn verif_http_dump() -> String {
    HTTP_SMACK.verif_dump("http")
}
#[cfg(kani)]
#[allow(dead_code)]
pub fn verif_http_init_stub() -> Smack {
    crate::smack::verif_tables::http_smack()
}
