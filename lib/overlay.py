"""Overlay builder: a scratch copy of /repo's current working tree with harness modules
appended (never editing real function bodies), the std::collections contract model, and the
natively dumped matcher tables.  Regenerated from /repo on every run."""
import hashlib
import os
import re
import shutil
import subprocess
import sys
import time

VERIF = os.path.dirname(os.path.dirname(os.path.abspath(__file__)))
REPO = os.environ.get("VERIF_REPO", "/repo")
CACHE = os.path.join(VERIF, ".cache")
KANI_SEED_TARGET = os.path.join(CACHE, "kani-target-seed")
NATIVE_TARGET = os.path.join(CACHE, "native-target")
TABLES_CACHE = os.path.join(CACHE, "tables")

ENV_OFFLINE = {"CARGO_NET_OFFLINE": "true"}


class InfraError(Exception):
    """Anything that prevents a verdict: reported as exit 2, never as a violation."""


def log(msg):
    sys.stderr.write("[verif] %s\n" % msg)
    sys.stderr.flush()


def sh(cmd, cwd=None, env=None, timeout=None, check=True, capture=True):
    e = dict(os.environ)
    e.update(ENV_OFFLINE)
    if env:
        e.update(env)
    t0 = time.time()
    p = subprocess.run(cmd, cwd=cwd, env=e, timeout=timeout,
                       stdout=subprocess.PIPE if capture else None,
                       stderr=subprocess.STDOUT if capture else None,
                       universal_newlines=True, errors="replace")
    if check and p.returncode != 0:
        raise InfraError("command failed (%d): %s\n%s" % (p.returncode, " ".join(cmd), (p.stdout or "")[-6000:]))
    return p.returncode, p.stdout or "", time.time() - t0


# ----------------------------------------------------------------------------------------
# harness metadata
# ----------------------------------------------------------------------------------------
class Harness(object):
    def __init__(self, name, file):
        self.name = name
        self.file = file
        self.props = []
        self.tier = "quick"
        self.timeout = None
        self.encodes = []
        self.bounds = []
        self.stubs = []
        self.assumes = []
        self.out = []
        self.covers = []          # cover messages that must be SATISFIED (vacuity witnesses)
        self.known = []           # known-finding keys this harness can report
        self.needs_tables = False
        self.mem_gb = None
        self.note = ""
        self.role = []            # per property: "decides" (default) or "supports"

    def __repr__(self):
        return "<Harness %s>" % self.name


def parse_harness_files(hdir=None):
    """Harness files: first lines `//@ target: src/...rs`, `//@ mod: name`, optional
    `//@ needs: tables`.  Each harness is preceded by `//# key: value` lines ending with the
    `#[kani::proof]` function.  Returns (files, harnesses)."""
    hdir = hdir or os.path.join(VERIF, "harness")
    files = []
    harnesses = {}
    for fn in sorted(os.listdir(hdir)):
        if not fn.endswith(".rs"):
            continue
        path = os.path.join(hdir, fn)
        src = open(path).read()
        meta = dict(re.findall(r"^//@ (\w+): (.*)$", src, re.M))
        if "target" not in meta or "mod" not in meta:
            raise InfraError("harness file %s lacks //@ target / //@ mod" % fn)
        files.append({"path": path, "target": meta["target"].strip(), "mod": meta["mod"].strip(),
                      "needs": meta.get("needs", ""), "src": src})
        cur = None
        pending = {}
        for line in src.splitlines():
            m = re.match(r"^\s*//# (\w+): (.*)$", line)
            if m:
                pending.setdefault(m.group(1), []).append(m.group(2).strip())
                continue
            m = re.match(r"^\s*(?:pub )?fn (\w+)\s*\(\s*\)", line)
            if m and "harness" in pending:
                name = pending["harness"][0]
                if name != m.group(1):
                    raise InfraError("%s: //# harness: %s precedes fn %s" % (fn, name, m.group(1)))
                h = Harness(name, path)
                h.mod = meta["mod"].strip()
                h.target = meta["target"].strip()
                h.props = " ".join(pending.get("props", [])).split()
                h.tier = (pending.get("tier", ["quick"])[0]).strip()
                if "timeout" in pending:
                    h.timeout = int(pending["timeout"][0])
                if "mem" in pending:
                    h.mem_gb = int(pending["mem"][0])
                h.encodes = pending.get("encodes", [])
                h.bounds = pending.get("bounds", [])
                h.stubs = pending.get("stubs", [])
                h.assumes = pending.get("assumes", [])
                h.out = pending.get("out", [])
                h.covers = pending.get("cover", [])
                h.known = pending.get("known", [])
                h.note = " ".join(pending.get("note", []))
                h.needs_tables = ("tables" in meta.get("needs", "")) or bool(pending.get("tables"))
                if name in harnesses:
                    raise InfraError("duplicate harness name %s" % name)
                harnesses[name] = h
                pending = {}
    return files, harnesses


# ----------------------------------------------------------------------------------------
# overlay construction
# ----------------------------------------------------------------------------------------
def tree_hash(root):
    h = hashlib.sha256()
    for d, _, fs in sorted(os.walk(root)):
        for f in sorted(fs):
            p = os.path.join(d, f)
            h.update(os.path.relpath(p, root).encode())
            h.update(open(p, "rb").read())
    return h.hexdigest()


def git_head(path):
    try:
        rc, out, _ = sh(["git", "-C", path, "rev-parse", "HEAD"], check=False)
        rc2, st, _ = sh(["git", "-C", path, "status", "--porcelain", "--", "src", "Cargo.toml", "Cargo.lock"], check=False)
        return out.strip() + ("+dirty" if st.strip() else "")
    except Exception:
        return "unknown"


def build_overlay(scratch, files, known_keys=(), declared_keys=()):
    """Copy /repo's working tree into scratch/ov and apply the mechanical transformations."""
    ov = os.path.join(scratch, "ov")
    if os.path.exists(ov):
        shutil.rmtree(ov)
    os.makedirs(ov)
    shutil.copytree(os.path.join(REPO, "src"), os.path.join(ov, "src"))
    for f in ("Cargo.toml", "Cargo.lock"):
        shutil.copy(os.path.join(REPO, f), os.path.join(ov, f))
    repo_src_hash = tree_hash(os.path.join(ov, "src"))
    # cargo config: offline
    os.makedirs(os.path.join(ov, ".cargo"))
    with open(os.path.join(ov, ".cargo", "config.toml"), "w") as f:
        f.write("[net]\noffline = true\n")
    # 1. container contract model: path-prefix rewrite
    n_rewrites = 0
    for d, _, fs in os.walk(os.path.join(ov, "src")):
        for fn in fs:
            if not fn.endswith(".rs"):
                continue
            p = os.path.join(d, fn)
            s = open(p).read()
            if re.search(r"use\s+std::\{[^}]*collections", s):
                raise InfraError("nested `use std::{.. collections ..}` in %s: the container-model rewrite "
                                 "does not handle this import style" % p)
            s2, k = re.subn(r"\bstd::collections::", "crate::kshim::collections::", s)
            if k:
                n_rewrites += k
                open(p, "w").write(s2)
    shutil.copy(os.path.join(VERIF, "lib", "kshim.rs"), os.path.join(ov, "src", "kshim.rs"))
    shutil.copy(os.path.join(VERIF, "lib", "verif_util.rs"), os.path.join(ov, "src", "verif_util.rs"))
    # 2. fixed appendices
    def append(rel, text):
        p = os.path.join(ov, rel)
        if not os.path.exists(p):
            raise InfraError("overlay target %s does not exist in the current tree" % rel)
        with open(p, "a") as f:
            f.write("\n" + text + "\n")
    main_rs = "src/masscanned.rs"
    append(main_rs, "mod kshim;\n#[cfg(kani)]\n#[allow(dead_code, unused_imports)]\nmod verif_util;\n")
    append("src/smack/smack.rs", open(os.path.join(VERIF, "lib", "smack_appendix.rs")).read())
    append("src/smack/mod.rs", "#[cfg(kani)]\npub use smack::verif_tables;\n")
    append("src/proto/mod.rs", open(os.path.join(VERIF, "lib", "proto_appendix.rs")).read())
    append("src/proto/http.rs", open(os.path.join(VERIF, "lib", "http_appendix.rs")).read())
    # 3. known-finding switches
    kn = "// generated from /verif/known_findings.json: true = listed with status \"known\"\n"
    for k in sorted(set(declared_keys) | set(known_keys)):
        kn += "pub const %s: bool = %s;\n" % (re.sub(r"[^A-Za-z0-9]", "_", k).upper(),
                                              "true" if k in known_keys else "false")
    open(os.path.join(ov, "src", "verif_known.rs"), "w").write(kn)
    append(main_rs, "#[cfg(kani)]\n#[allow(dead_code)]\nmod verif_known;\n")
    # 4. harness modules
    for hf in files:
        body = hf["src"]
        append(hf["target"],
               "#[cfg(kani)]\n#[allow(dead_code, unused_imports, unused_variables, unused_mut, non_snake_case)]\n"
               "pub(crate) mod %s {\n    use super::*;\n%s\n}\n" % (hf["mod"], body))
    # placeholder tables so that the crate compiles before the dump
    dummy = ""
    for up, lo in (("PROTO", "proto"), ("HTTP", "http")):
        dummy += ("pub const {0}_IS_NOCASE: bool = false;\npub const {0}_IS_ANCHOR_BEGIN: bool = false;\n"
                  "pub const {0}_IS_ANCHOR_END: bool = false;\npub const {0}_STATE_COUNT: usize = 0;\n"
                  "pub const {0}_MATCH_LIMIT: usize = 0;\npub const {0}_SYMBOL_COUNT: usize = 0;\n"
                  "pub const {0}_ROW_SHIFT: usize = 0;\npub static {0}_CHAR_TO_SYMBOL: [u8; 1] = [0];\n"
                  "pub static {0}_TRANSITIONS: [usize; 1] = [0];\n"
                  "pub fn {1}_matches() -> Vec<super::SmackMatches> {{ Vec::new() }}\n").format(up, lo)
    open(os.path.join(ov, "src", "verif_tables.rs"), "w").write(dummy)
    return ov, repo_src_hash, n_rewrites


def dump_tables(ov, src_hash):
    """Run the REAL proto_init()/http_init() natively from the overlay and write the compiled
    tables as Rust constants.  Cached by the hash of /repo's src tree (same sources, same
    tables); any source change re-dumps."""
    os.makedirs(TABLES_CACHE, exist_ok=True)
    lib_hash = hashlib.sha256()
    for f in ("smack_appendix.rs", "proto_appendix.rs", "http_appendix.rs"):
        lib_hash.update(open(os.path.join(VERIF, "lib", f), "rb").read())
    key = hashlib.sha256((src_hash + lib_hash.hexdigest()).encode()).hexdigest()[:32]
    cached = os.path.join(TABLES_CACHE, key + ".rs")
    dst = os.path.join(ov, "src", "verif_tables.rs")
    t0 = time.time()
    if not os.path.exists(cached):
        tmp = cached + ".tmp.%d" % os.getpid()
        os.makedirs(NATIVE_TARGET, exist_ok=True)
        rc, out, _ = sh(["cargo", "test", "--offline", "--bin", "masscanned", "verif_dump_tables", "--", "--exact",
                         "proto::verif_dump::verif_dump_tables"],
                        cwd=ov, env={"CARGO_TARGET_DIR": NATIVE_TARGET, "VERIF_TABLES_OUT": tmp,
                                     "RUSTFLAGS": "-Awarnings"}, timeout=1200, check=False)
        if rc != 0 or not os.path.exists(tmp):
            raise InfraError("native table dump failed:\n" + out[-4000:])
        os.replace(tmp, cached)
        hit = False
    else:
        hit = True
    shutil.copy(cached, dst)
    sha = hashlib.sha256(open(cached, "rb").read()).hexdigest()
    return {"path": cached, "sha256": sha, "cache_hit": hit, "wall_s": round(time.time() - t0, 2)}


def seed_kani_target(scratch, name="kani-target"):
    """Per-run Kani target dir seeded (hard links) from the dependency cache built by setup."""
    tgt = os.path.join(scratch, name)
    if os.path.exists(tgt):
        return tgt
    if os.path.isdir(KANI_SEED_TARGET):
        sh(["cp", "-al", KANI_SEED_TARGET, tgt])
        # only the dependencies are cached; the crate itself is always rebuilt from the overlay
        for sub in ("build/masscanned", "incremental"):
            shutil.rmtree(os.path.join(tgt, "kani", "x86_64-unknown-linux-gnu", "debug", sub), ignore_errors=True)
    else:
        os.makedirs(tgt)
    return tgt
