#!/usr/bin/env python3
"""Regenerates /verif/MANIFEST.json from the harness registry (which properties have harnesses)
and /verif/lib/claims.json (per-property level text / notes)."""
import json
import os
import sys

sys.path.insert(0, os.path.dirname(os.path.abspath(__file__)))
import overlay as ov_mod
from driver import PROPS, select

VERIF = ov_mod.VERIF


def main():
    files, harnesses = ov_mod.parse_harness_files()
    claims = json.load(open(os.path.join(VERIF, "lib", "claims.json")))
    checks = []
    na = []
    for pid in PROPS:
        c = claims.get(pid, {})
        q = select(harnesses, pid, "quick")
        if not q or c.get("not_applicable"):
            na.append({"property_id": pid, "reason": c.get("not_applicable") or "check under construction (no harness registered yet)"})
            continue
        t = select(harnesses, pid, "thorough")
        encodes = []
        for h in t:
            for e in h.encodes:
                e = e.split(" (")[0]
                if e not in encodes:
                    encodes.append(e)
        checks.append({
            "property_id": pid,
            "quick_cmd": "./check %s --tier quick" % pid,
            "thorough_cmd": "./check %s --tier thorough" % pid,
            "evidence_file": "/verif/evidence/%s.json" % pid,
            "replay_cmd_template": "./check --replay {path}",
            "engine": "kani-cbmc",
            "level_claimed": {
                "category": "model_checking",
                "text": c.get("text", "") + " [quick: %d harness instance(s); thorough: %d]" % (len(q), len(t)),
                "design_ref": c.get("design_ref", "DESIGN.md section 5, " + pid),
            },
            "level_note": c.get("note", ""),
            "technique": c.get("technique", "bounded symbolic model checking of the real Rust functions with Kani 0.68 / CBMC 6.11 (CaDiCaL): "
                                            "inputs are kani::any(), the property is an assertion, counterexamples are replayed natively"),
        })
    man = {
        "version": 1,
        "setup_cmd": "./setup.sh",
        "hooks": {
            "guard": "none needed: harnesses live in /verif and are appended to a scratch copy of /repo as #[cfg(kani)] child modules; no hook is committed to /repo",
            "enable": "./check builds an overlay copy of /repo's working tree outside /repo and compiles it with cargo kani (cfg(kani)); /repo itself is built unmodified",
            "baseline_off_cmd": "cd /repo && cargo test --workspace --no-fail-fast --offline",
            "source_commits": [],
            "add_only": True,
        },
        "engines": [
            {"name": "kani-cbmc", "path": "/verif/check", "serves_properties": [c["property_id"] for c in checks],
             "kind_free_text": "Kani 0.68.0 -> CBMC 6.11.0 (CaDiCaL) bounded model checker over the real crate, driven by /verif/lib/driver.py"},
        ],
        "checks": checks,
        "not_applicable": na,
        "notes": "exit 0 = held within the bounds listed in the evidence file; exit 1 = solver counterexample replayed natively (VIOLATION line); "
                 "exit 2 = inconclusive (timeout, out of memory, compile error of the overlay, non-reproducing counterexample) - never reported as held. "
                 "Known findings are in /verif/known_findings.json.",
    }
    json.dump(man, open(os.path.join(VERIF, "MANIFEST.json"), "w"), indent=1)
    print("claimed:", [c["property_id"] for c in checks])
    print("not_applicable:", [n["property_id"] for n in na])


if __name__ == "__main__":
    main()
