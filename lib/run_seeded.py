#!/usr/bin/env python3
"""Runs the registered checks against seeded defects.  Each defect is applied to a scratch
worktree of /repo (VERIF_REPO points the check at it), so /repo itself is never touched and
several defects can be evaluated in parallel.  Usage: run_seeded.py [name ...] [--tier quick]
Records the outcome in seeded/<name>/meta.json (detected_by)."""
import json, os, subprocess, sys, time, threading

VERIF = os.path.dirname(os.path.dirname(os.path.abspath(__file__)))

def run_one(name, tier, props=None):
    d = os.path.join(VERIF, "seeded", name)
    meta = json.load(open(os.path.join(d, "meta.json")))
    wt = "/tmp/mut-%s" % name
    subprocess.run("git -C /repo worktree remove --force %s" % wt, shell=True, stdout=subprocess.DEVNULL, stderr=subprocess.DEVNULL)
    # apply on /repo's HEAD when the patch still applies there (so that defects already repaired in
    # /repo do not blur the outcome), else on the commit the defect was written against
    subprocess.check_call("git -C /repo worktree add -q %s HEAD" % wt, shell=True)
    applied_on = "HEAD"
    if subprocess.call("cd %s && git apply %s/patch.diff" % (wt, d), shell=True, stderr=subprocess.DEVNULL) != 0:
        subprocess.check_call("git -C /repo worktree remove --force %s && git -C /repo worktree add -q %s %s && cd %s && git apply %s/patch.diff" % (
            wt, wt, meta.get("base_commit", "HEAD"), wt, d), shell=True)
        applied_on = meta.get("base_commit")
    meta["applied_on"] = applied_on
    res = {}
    try:
        for prop in (props or [meta["property"]]):
            t0 = time.time()
            env = dict(os.environ, VERIF_REPO=wt, VERIF_SCRATCH="/var/tmp/masscanned-verif.mut-%s-%s" % (name, prop))
            p = subprocess.run([os.path.join(VERIF, "check"), prop, "--tier", tier, "--no-evidence"], cwd=VERIF, env=env,
                               stdout=subprocess.PIPE, stderr=subprocess.PIPE, universal_newlines=True)
            viol = [l for l in p.stdout.splitlines() if l.startswith("VIOLATION")]
            why = [l for l in p.stderr.splitlines() if "violated in" in l or "INCONCLUSIVE" in l][:6]
            res[prop] = {"tier": tier, "exit": p.returncode, "violations": viol, "detail": [w[:400] for w in why], "wall_s": round(time.time() - t0)}
            print(name, prop, "exit", p.returncode, viol[:2], flush=True)
    finally:
        subprocess.run("git -C /repo worktree remove --force %s" % wt, shell=True)
    meta.setdefault("runs", {}).update(res)
    meta["detected_by"] = sorted(k for k, v in meta["runs"].items() if v["exit"] == 1)
    json.dump(meta, open(os.path.join(d, "meta.json"), "w"), indent=1)

def main():
    args = [a for a in sys.argv[1:] if not a.startswith("--")]
    tier = "thorough" if "--thorough" in sys.argv else "quick"
    names = args or sorted(os.listdir(os.path.join(VERIF, "seeded")))
    par = 1
    q = list(names)
    lock = threading.Lock()
    def w():
        while True:
            with lock:
                if not q: return
                n = q.pop(0)
            try:
                run_one(n, tier)
            except Exception as e:
                print(n, "ERROR", e, flush=True)
    ts = [threading.Thread(target=w) for _ in range(par)]
    [t.start() for t in ts]; [t.join() for t in ts]

main()
