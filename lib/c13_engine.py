"""Driver glue for the C13 response-text engine (lib/c13_z3.py): runs the REAL
proto::http::repl natively for two concrete requests, lets the solver validate the source-level
encoding against those bytes, decides the response-text sub-claims for every date string within
the bound, and replays a violation on the real bytes (native oracle below) before reporting."""
import json
import os
import re
import subprocess
import time

import overlay as ov_mod
from overlay import InfraError, log, sh, VERIF

# one complete request per supported method (the nine of the property), mixed line ends / headers
METHODS = [b"GET", b"PUT", b"POST", b"HEAD", b"DELETE", b"CONNECT", b"OPTIONS", b"TRACE", b"PATCH"]
REQUESTS = [m + b" / HTTP/1.1\r\n\r\n" for m in METHODS] + [b"POST /a HTTP/1.0\nHost: x\nA: b\n\n", b"head /\xff HTTP/1.1\r\nA: b\r\n\r\n"]


class PseudoHarness(object):
    def __init__(self):
        self.name = "c13_z3_response_text"
        self.encodes = ["proto::http::repl: the `format!` call that builds the 401 response (template pieces, argument list and the "
                        "string constants, translated from src/proto/http.rs of this tree on every run; the translator refuses what it does not understand)"]
        self.bounds = ["date text: every byte string of length 0..=40 without CR / LF (41 length classes x 5 QF_BV queries), all other response bytes are "
                       "constants of the source; properties: status line 'HTTP/1.1 401', empty line present, WWW-Authenticate line in the head, "
                       "Content-Length line in the head, its decimal value == number of bytes after the empty line"]
        self.stubs = ["chrono::Utc::now().to_rfc2822() -> arbitrary text without CR / LF (contract)",
                      "the condition of an `if c { A } else { B }` that selects a response constant -> free boolean (every variant must satisfy the claim; a violating variant is only reported when one of the eleven concrete requests reproduces it natively)"]
        self.assumes = ["the response does not depend on the request once the parser is in CONTENT state: the translator accepts only arguments that are "
                        "constants, lengths of constants or the date (anything else: inconclusive); validated natively on eleven requests (all nine methods)"]
        self.out = ["which requests reach CONTENT state (parser lemmas c13_http_step_* / c11_http_stream_cuts_*); header field case-insensitivity"]
        self.covers = []
        self.known = []
        self.file = os.path.join(VERIF, "lib", "c13_z3.py")


def native_responses(ovdir, reqs):
    """the REAL proto::http::repl of the overlay's tree on each request -> list of bytes / None"""
    rc, out, wall = sh(["cargo", "test", "--offline", "--bin", "masscanned", "verif_c13_native", "--", "--exact",
                        "proto::http::verif_c13_native::verif_c13_native", "--nocapture"],
                       cwd=ovdir, env={"CARGO_TARGET_DIR": ov_mod.NATIVE_TARGET, "VERIF_C13_REQ": ",".join(r.hex() for r in reqs),
                                       "RUSTFLAGS": "-Awarnings"}, timeout=1200, check=False)
    m = re.findall(r"VERIF_C13_RESP=(\w+)", out)
    if len(m) != len(reqs):
        raise InfraError("C13 native run did not run:\n" + out[-3000:])
    return [None if x == "none" else bytes.fromhex(x) for x in m]


def oracle(resp):
    """the response-text sub-claims of C13 on real bytes -> list of failed names"""
    bad = []
    if resp is None:
        return ["answered"]
    if not resp.startswith(b"HTTP/1.1 401"):
        bad.append("status_line")
    cands = [(resp.find(s), len(s)) for s in (b"\n\n", b"\r\n\r\n") if resp.find(s) >= 0]
    if not cands:
        return bad + ["blank_line"]
    idx, sepl = min(cands)
    head, body = resp[:idx], resp[idx + sepl:]
    lines = [l.rstrip(b"\r") for l in head.split(b"\n")][1:]
    names = {}
    for l in lines:
        if b":" in l:
            k, v = l.split(b":", 1)
            names.setdefault(k.strip().lower(), v.strip())
    if b"www-authenticate" not in names:
        bad.append("www_authenticate")
    if b"content-length" not in names:
        bad.append("content_length_present")
    elif not names[b"content-length"].isdigit() or int(names[b"content-length"]) != len(body):
        bad.append("content_length_equals_body")
    return bad


def run_c13(ovdir, scratch, info, known, known_keys, tier, results, verdict, sel):
    ph = PseudoHarness()
    sel.append(ph)
    t0 = time.time()
    res = {"harness": ph.name, "status": None, "failed": [], "covers": {}, "stats": {}, "props": {}, "duration_s": None}
    results[ph.name] = res
    path = os.path.join(VERIF, "replays", "C13-z3-response-text.json")
    os.makedirs(os.path.dirname(path), exist_ok=True)
    reals = native_responses(ovdir, REQUESTS)
    if any(r is None for r in reals):
        # a complete request of the validation set is not answered at all: reported from the
        # native run itself (the solver-level statement of this is the parser lemmas' business)
        miss = [rq.hex() for rq, rl in zip(REQUESTS, reals) if rl is None]
        res["status"] = "failed"
        res["failed"].append({"description": "C13: complete HTTP request not answered by proto::http::repl: %r" % bytes.fromhex(miss[0]),
                              "at": "src/proto/http.rs", "category": "native"})
        json.dump({"property": "C13", "engine": "c13-text", "requests": miss, "failed": ["answered"], "repo_head": info.get("repo_head"),
                   "reproduced": True}, open(path, "w"), indent=1)
        verdict.violations.append({"harness": ph.name, "replay": path, "failed": res["failed"]})
        res["duration_s"] = round(time.time() - t0, 1)
        return
    cmd = ["python3-vt", os.path.join(VERIF, "lib", "c13_z3.py"), os.path.join(ovdir, "src", "proto", "http.rs"),
           ",".join("none" if r is None else r.hex() for r in reals)]
    if tier != "quick":
        cmd.append("crosscheck")
    p = subprocess.run(cmd, stdout=subprocess.PIPE, stderr=subprocess.PIPE, universal_newlines=True, timeout=1800)
    try:
        out = json.loads(p.stdout)
    except Exception:
        res["status"] = "inconclusive"
        verdict.inconclusive.append("c13_z3_response_text: engine produced no result: %s" % p.stderr[-1500:])
        res["duration_s"] = round(time.time() - t0, 1)
        return
    allq = out["queries"]
    nq = len(allq)
    good = len([q for q in allq if (q["result"] == "sat") == (q["name"] in ("validate", "witness")) and q["result"] in ("sat", "unsat")])
    res["props"] = {"total_properties": nq, "passed": good}
    res["n_checks"] = nq
    res["stats"] = {"runtime_decision_procedure_s": out.get("solver_s"), "runtime_symex_s": out.get("encode_s"), "vccs_generated": nq}
    res["z3"] = {"solver": out.get("solver"), "encoded": out.get("encoded"), "crosscheck": out.get("crosscheck"), "date_max": out.get("date_max"),
                 "variants": out.get("variants")}
    res["sample_checks"] = [{"description": "z3 date length %s: %s" % (q.get("length"), q["name"]), "status": q["result"], "at": "lib/c13_z3.py"} for q in allq[-3:]]
    nval = len([q for q in allq if q["name"] == "validate"])
    val_ok = nval == len(REQUESTS) and all(q["result"] == "sat" for q in allq if q["name"] == "validate")
    res["covers"]["encoding reproduces the real response bytes (%d requests, all nine methods)" % len(REQUESTS)] = "Satisfied" if val_ok else "Unsatisfiable"
    res["covers"]["date assumptions satisfiable"] = "Satisfied" if any(q["name"] == "witness" and q["result"] == "sat" for q in allq) else "Unsatisfiable"
    inc = out.get("inconclusive", [])
    viol = out.get("violations") or []
    if viol:
        res["status"] = "failed"
        for v in viol:
            res["failed"].append({"description": "C13: %s (variant %s of the response, date text e.g. %r)" % (v["what"], v.get("variant"), bytes.fromhex(v["date_hex"])),
                                  "at": "src/proto/http.rs (format! of the 401 response)", "category": "z3"})
        names = [v["name"] for v in viol]
        # replay: the native oracle on the real bytes of every request of the set
        nat = {}
        for rq, rl in zip(REQUESTS, reals):
            bad = oracle(rl)
            if set(bad) & set(names):
                nat[rq.hex()] = bad
        rep = {"property": "C13", "engine": "c13-text", "requests": sorted(nat) or [r.hex() for r in REQUESTS], "failed": names,
               "native_oracle_failed": nat, "repo_head": info.get("repo_head"), "reproduced": bool(nat)}
        json.dump(rep, open(path, "w"), indent=1)
        if rep["reproduced"]:
            verdict.violations.append({"harness": ph.name, "replay": path, "failed": res["failed"]})
        else:
            verdict.inconclusive.append("c13_z3_response_text: solver violation %s did not reproduce on the real response bytes of the %d requests" % (names, len(REQUESTS)))
    elif inc:
        res["status"] = "inconclusive"
        verdict.inconclusive.append("c13_z3_response_text: %s" % inc[:2])
    else:
        res["status"] = "success"
        verdict.passed.append(ph.name)
    res["duration_s"] = round(time.time() - t0, 1)


def replay(rep, ovdir):
    """re-run the recorded requests through the real code of the current tree -> True when a recorded failure is still there"""
    bad = set()
    for r in native_responses(ovdir, [bytes.fromhex(r) for r in rep["requests"]]):
        bad |= set(oracle(r))
    log("replay C13 response text: native oracle reports %s (recorded: %s)" % (sorted(bad), rep["failed"]))
    return bool(bad & set(rep["failed"]))
