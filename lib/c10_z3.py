#!/usr/bin/env python3
"""C10 auxiliary engine: bounded model checking, with z3, of the protocol matcher's REAL
compiled transition tables (dumped natively from /repo's current tree by the real
`proto_init()` -> `Smack::compile()`) against the published signature set.

Symbolic input: N = 29 payload bytes and a length L <= N.  The step relation
    row' = T[(row << row_shift) + C[byte]],   stop at the first row >= match_limit
is exactly what `Smack::search_next` / `inner_match` compute (tied to the real code by the
Kani lemmas c10_smack_step_*); `search_next_end` adds one step on the END symbol.
The reference is the signature set of the property text ('*' = any byte, END-anchored
patterns only for datagrams of exactly that length, first completed signature wins).

The query  exists bytes, L :  real_decision != reference_decision  and not excluded(bytes)
must be UNSAT; `excluded` are the listed classes (known findings / benign dispatches that
the responder lemmas cover).  A model is a concrete payload, replayed natively.
"""
import ast
import json
import re
import sys
import time

NO = 0xFFFF
N = 29

# --- the published signature set (C10) -----------------------------------------------------
PROTO_HTTP, PROTO_STUN, PROTO_SSH, PROTO_GHOST, PROTO_RPC_TCP, PROTO_RPC_UDP, PROTO_SMB1, PROTO_SMB2 = 1, 2, 3, 4, 5, 6, 7, 8
W = None  # wildcard marker


def lit(b):
    return list(b)


def wild(s):
    return [None if c == 0x2a else c for c in s]


SIGNATURES = []
for v in ["GET", "PUT", "POST", "HEAD", "DELETE", "CONNECT", "OPTIONS", "TRACE", "PATCH"]:
    SIGNATURES.append(("http:" + v, lit((v + " /").encode()), PROTO_HTTP, False))
SIGNATURES += [
    ("stun:magic", wild(b"\x00\x01**\x21\x12\xa4\x42"), PROTO_STUN, False),
    ("stun:empty", wild(b"\x00\x01\x00\x00" + b"*" * 16), PROTO_STUN, True),
    ("stun:change_request", wild(b"\x00\x01\x00\x08" + b"*" * 16 + b"\x00\x03\x00\x04\x00\x00\x00*"), PROTO_STUN, True),
    ("ssh:2.0", lit(b"SSH-2.0"), PROTO_SSH, False),
    ("ssh:1.99", lit(b"SSH-1.99"), PROTO_SSH, False),
    ("ghost", lit(b"Gh0st"), PROTO_GHOST, False),
    ("rpc:tcp", wild(b"********\x00\x00\x00\x00\x00\x00\x00*\x00\x01\x86*****\x00\x00\x00*"), PROTO_RPC_TCP, False),
    ("rpc:udp", wild(b"****\x00\x00\x00\x00\x00\x00\x00*\x00\x01\x86*****\x00\x00\x00*"), PROTO_RPC_UDP, False),
    ("smb1", wild(b"\x00\x00**\xffSMB"), PROTO_SMB1, False),
    ("smb2", wild(b"\x00\x00**\xfeSMB"), PROTO_SMB2, False),
]


def load_tables(path, prefix="PROTO"):
    src = open(path).read()

    def const(n):
        return int(re.search(r"pub const %s_%s: usize = (\d+);" % (prefix, n), src).group(1))

    def arr(n):
        return ast.literal_eval(re.search(r"pub static %s_%s: \[\w+; \d+\] = (\[.*?\]);" % (prefix, n), src).group(1))

    return {"T": arr("TRANSITIONS"), "C": arr("CHAR_TO_SYMBOL"), "MF": arr("MATCH_FLAT"),
            "RS": const("ROW_SHIFT"), "ML": const("MATCH_LIMIT"), "SC": const("STATE_COUNT")}


# --- concrete simulation of the dumped tables (used for replay pre-checks and self-test) ----
def sim_search_next(tb, state, data, i):
    T, C, MF, RS, ML = tb["T"], tb["C"], tb["MF"], tb["RS"], tb["ML"]
    row = state & 0xFFFFFF
    cm = state >> 24
    idd = None
    if cm == 0:
        while i < len(data):
            row = T[(row << RS) + C[data[i]]]
            if row >= ML:
                break
            i += 1
        if MF[4 * row] != 0:
            i += 1
            cm = MF[4 * row]
    if cm != 0:
        idd = MF[4 * row + cm]
        cm -= 1
    return idd, row | (cm << 24), i


def sim_search_end(tb, state):
    T, C, MF, RS = tb["T"], tb["C"], tb["MF"], tb["RS"]
    row = state & 0xFFFFFF
    cm = state >> 24
    if cm == 0xFF:
        return None, state
    if cm != 0:
        idd = MF[4 * row + cm]
        cm -= 1
    else:
        row = T[(row << RS) + C[257]]
        if MF[4 * row] == 0:
            return None, state
        cm = MF[4 * row]
        idd = MF[4 * row + cm]
        cm -= 1
    return idd, row | (cm << 24)


def sim_dispatch(tb, data, datagram):
    idd, st, _ = sim_search_next(tb, 0, data, 0)
    if idd is None and datagram:
        idd, st = sim_search_end(tb, st)
    return idd


def ref_dispatch(data, datagram):
    best = None
    for name, p, idd, aend in SIGNATURES:
        if len(data) < len(p):
            continue
        if not all(p[j] is None or data[j] == p[j] for j in range(len(p))):
            continue
        if aend and not (datagram and len(data) == len(p)):
            continue
        if best is None or len(p) < best[0]:
            best = (len(p), idd)
    return best[1] if best else None


# --- z3 encoding ----------------------------------------------------------------------------
class Encoding(object):
    """Pure bit-vector encoding: the tables become multiplexer trees over the index bits, so
    the whole problem bit-blasts to SAT (no uninterpreted functions, no arrays)."""

    def __init__(self, tb):
        import z3
        self.z3 = z3
        self.tb = tb
        T, C, MF, RS, ML, SC = tb["T"], tb["C"], tb["MF"], tb["RS"], tb["ML"], tb["SC"]
        nrows = len(MF) // 4
        assert max(T) < 256 and nrows <= 256 and (1 << RS) >= max(C) + 1
        RW = 8                  # row width
        self.RW = RW
        bv = lambda v: z3.BitVecVal(v, RW)
        self.NOID = 0xFF
        assert all(MF[4 * r + c] < 0xFF for r in range(nrows) for c in range(1, MF[4 * r] + 1))

        def mux(index, nbits, table, width):
            """table[index] as a balanced If-tree over the bits of `index` (msb first)."""
            def rec(lo, bit):
                if bit < 0:
                    return z3.BitVecVal(table[lo] if lo < len(table) else 0, width)
                size = 1 << bit
                if lo + size >= len(table):
                    # upper half out of range: only the lower half matters
                    return rec(lo, bit - 1)
                a = rec(lo, bit - 1)
                b = rec(lo + size, bit - 1)
                if z3.is_bv_value(a) and z3.is_bv_value(b) and a.as_long() == b.as_long():
                    return a
                return z3.If(z3.Extract(bit, bit, index) == 1, b, a)
            return rec(0, nbits - 1)

        IW = RW + RS
        mid_tab = [(MF[4 * r + MF[4 * r]] if MF[4 * r] else self.NOID) for r in range(nrows)]
        self.mid_tab = mid_tab

        def Tsel(row, sym):
            return mux(z3.Concat(row, sym), IW, T, RW)

        def Csel(byte):
            return mux(byte, 8, C[:256], RS)

        def Mid(row):
            return mux(row, RW, mid_tab, RW)

        self.d = [z3.BitVec("d%d" % i, 8) for i in range(N)]
        end_sym = z3.BitVecVal(C[257], RS)
        row = bv(0)
        done = z3.BoolVal(False)
        rid = bv(self.NOID)
        self.stream_id = [rid]
        self.rows_at = [row]
        self.done_at = [done]
        for i in range(N):
            nrow = Tsel(row, Csel(self.d[i]))
            hit = z3.And(z3.Not(done), z3.UGE(nrow, ML))
            rid = z3.If(hit, Mid(nrow), rid)
            row = z3.If(done, row, nrow)
            done = z3.Or(done, hit)
            self.stream_id.append(rid)
            self.rows_at.append(row)
            self.done_at.append(done)
        self.dgram_id = []
        for k in range(N + 1):
            erow = Tsel(self.rows_at[k], end_sym)
            self.dgram_id.append(z3.If(self.stream_id[k] != self.NOID, self.stream_id[k],
                                       z3.If(self.done_at[k], bv(self.NOID), Mid(erow))))
        self.ref_stream = []
        self.ref_dgram = []
        for k in range(N + 1):
            cands = sorted([s for s in SIGNATURES if len(s[1]) <= k and not s[3]], key=lambda s: len(s[1]))
            e = bv(self.NOID)
            for name, p, idd, aend in reversed(cands):
                comp = z3.And([self.d[j] == p[j] for j in range(len(p)) if p[j] is not None])
                e = z3.If(comp, bv(idd), e)
            self.ref_stream.append(e)
            e2 = e
            for name, p, idd, aend in [s for s in SIGNATURES if s[3] and len(s[1]) == k]:
                comp = z3.And([self.d[j] == p[j] for j in range(len(p)) if p[j] is not None])
                e2 = z3.If(e != self.NOID, e, z3.If(comp, bv(idd), e2))
            self.ref_dgram.append(e2)

    def solver(self):
        return self.z3.Then("simplify", "propagate-values", "bit-blast", "sat").solver()

    def model_bytes(self, m, k):
        return bytes(m.eval(x, model_completion=True).as_long() for x in self.d[:k])


# --- excluded classes -------------------------------------------------------------------------
def class_predicates(enc):
    """key -> (kind, description, predicate(mode, k) over enc.d for a payload of k bytes).
    kind 'known'  = genuine defect recorded in known_findings.json (excluded only while listed);
    kind 'benign' = the matcher dispatches although no signature is complete, but the responder
                    lemma named in the description shows that nothing is answered."""
    z3 = enc.z3
    d = enc.d
    LITSTART = [0x00] + [ord(c) for c in "GPHDCOTS"]

    def sig(name):
        for n, p, idd, aend in SIGNATURES:
            if n == name:
                return p
        raise KeyError(name)

    def sig_complete(name, k):
        p = sig(name)
        if len(p) > k:
            return z3.BoolVal(False)
        return z3.And([d[j] == p[j] for j in range(len(p)) if p[j] is not None])

    def all_but_last(name, mode, k):
        p = sig(name)
        if mode != "datagram" or k != len(p) - 1:
            return z3.BoolVal(False)
        return z3.And([d[j] == p[j] for j in range(len(p) - 1) if p[j] is not None])

    cls = {}
    cls["c10.shadow.stun_magic.byte2_is_00"] = ("known", "STUN binding request with magic cookie and message length < 256 is not recognised by the matcher (byte 2 = 00 follows the literal path of the END-anchored STUN signatures)",
                                               lambda mode, k: z3.And(sig_complete("stun:magic", k), d[2] == 0))
    cls["c10.shadow.rpc_tcp.byte4_is_00"] = ("known", "ONC-RPC/TCP call whose XID high byte is 00 is not recognised by the matcher",
                                            lambda mode, k: z3.And(sig_complete("rpc:tcp", k), d[4] == 0))
    cls["c10.shadow.rpc_tcp.byte0_is_literal_start"] = ("known", "ONC-RPC/TCP call whose record mark starts with 00/G/P/H/D/C/O/T/S is not recognised by the matcher",
                                                       lambda mode, k: z3.And(sig_complete("rpc:tcp", k), z3.Or([d[0] == c for c in LITSTART])))
    cls["c10.shadow.rpc_udp.byte0_is_literal_start"] = ("known", "ONC-RPC/UDP call whose XID starts with 00/G/P/H/D/C/O/T/S is not recognised by the matcher",
                                                       lambda mode, k: z3.And(sig_complete("rpc:udp", k), z3.Or([d[0] == c for c in LITSTART])))
    cls["benign.rpc_udp.end_as_last_wildcard"] = ("benign", "23-byte datagram matching all but the last (wildcard) position of the ONC-RPC/UDP signature is dispatched at end of input; rpc::repl_udp stays silent below 40 bytes (lemma c10_rpc_short_silent)",
                                                 lambda mode, k: all_but_last("rpc:udp", mode, k))
    cls["benign.rpc_tcp.end_as_last_wildcard"] = ("benign", "27-byte datagram matching all but the last (wildcard) position of the ONC-RPC/TCP signature is dispatched at end of input; rpc::repl_tcp stays silent below 44 bytes (lemma c10_rpc_short_silent)",
                                                 lambda mode, k: all_but_last("rpc:tcp", mode, k))
    return cls


def dead_rows(tb):
    """rows from which no match row is reachable by any symbol sequence (plain graph closure
    over the concrete table; used only to state the length lemma that z3 then checks)."""
    T, RS, ML = tb["T"], tb["RS"], tb["ML"]
    nrows = len(tb["MF"]) // 4
    ncols = 1 << RS
    syms = sorted(set(tb["C"][:256]))          # symbols that payload bytes can produce
    alive = set(r for r in range(nrows) if r >= ML)
    changed = True
    while changed:
        changed = False
        for r in range(nrows):
            if r in alive or (r << RS) + ncols > len(T):
                continue
            if any(T[(r << RS) + c] in alive for c in syms):
                alive.add(r)
                changed = True
    return [r for r in range(nrows) if r not in alive and (r << RS) + ncols <= len(T)]


def run(tables_path, budget_s=600, lengths=None, verbose=True, known_keys=None):
    import z3
    tb = load_tables(tables_path)
    t0 = time.time()
    enc = Encoding(tb)
    t_enc = time.time() - t0
    classes = class_predicates(enc)
    out = {"encode_s": round(t_enc, 2), "queries": [], "violations": [], "known_hit": {}, "inconclusive": [],
           "tables": {"rows": tb["SC"], "match_limit": tb["ML"], "row_shift": tb["RS"], "transitions": len(tb["T"])}}
    lengths = lengths or list(range(0, N + 1))
    for mode, real, ref in (("stream", enc.stream_id, enc.ref_stream), ("datagram", enc.dgram_id, enc.ref_dgram)):
        for k in lengths:
            t1 = time.time()
            s = enc.solver()
            s.set("timeout", int(budget_s * 1000 / 4))
            s.add(real[k] != ref[k])
            for key, (kind, desc, pred) in classes.items():
                if kind == "known" and known_keys is not None and key not in known_keys:
                    continue   # not (or no longer) listed: nothing is suppressed
                s.add(z3.Not(pred(mode, k)))
            r = s.check()
            dt = time.time() - t1
            q = {"mode": mode, "length": k, "result": str(r), "solver_s": round(dt, 2)}
            if r == z3.sat:
                m = s.model()
                w = enc.model_bytes(m, k)
                q["witness"] = w.hex()
                q["real"] = m.eval(real[k], model_completion=True).as_long()
                q["ref"] = m.eval(ref[k], model_completion=True).as_long()
                out["violations"].append(q)
            elif r != z3.unsat:
                out["inconclusive"].append(q)
            out["queries"].append(q)
            if verbose:
                sys.stderr.write("[c10-z3] %s len=%d %s %.1fs %s\n" % (mode, k, r, dt, q.get("witness", "")))
            if time.time() - t0 > budget_s:
                out["inconclusive"].append({"reason": "budget exhausted", "at": [mode, k]})
                return out
    # are the known classes still present? (cover-style query per class)
    for key, (kind, desc, pred) in classes.items():
        hit = None
        for mode, real, ref in (("stream", enc.stream_id, enc.ref_stream), ("datagram", enc.dgram_id, enc.ref_dgram)):
            for k in (8, 23, 24, 27, 28, 29):
                s = enc.solver()
                s.add(real[k] != ref[k])
                s.add(pred(mode, k))
                r = s.check()
                if r == z3.sat:
                    hit = {"mode": mode, "length": k, "witness": enc.model_bytes(s.model(), k).hex()}
                if hit:
                    break
            if hit:
                break
        out["known_hit"][key] = hit
    # length lemma: after N bytes without a match the matcher sits in a row from which no match
    # is reachable any more, so N bytes decide payloads of every length
    dead = dead_rows(tb)
    s = enc.solver()
    s.add(z3.Not(enc.done_at[N]))
    s.add(z3.And([enc.rows_at[N] != r for r in dead]))
    t1 = time.time()
    r = s.check()
    out["length_lemma"] = {"dead_rows": dead, "result": str(r), "solver_s": round(time.time() - t1, 2)}
    if r == z3.sat:
        out["inconclusive"].append({"reason": "length lemma fails: a match is still reachable after %d bytes" % N,
                                    "witness": enc.model_bytes(s.model(), N).hex()})
    elif r != z3.unsat:
        out["inconclusive"].append({"reason": "length lemma undetermined"})
    # ... and from the rows reachable after >= N unmatched bytes the END symbol matches nothing
    # (level-set scan of the concrete table, cross-checked by z3 at depth N above)
    T, C, MF, RS, ML = tb["T"], tb["C"], tb["MF"], tb["RS"], tb["ML"]
    syms = sorted(set(C[:256]))
    level = {0}
    for _ in range(N):
        level = set(T[(r << RS) + c] for r in level for c in syms if r < ML)
        level = set(r for r in level if r < ML)
    closure = set(level)
    frontier = set(level)
    while frontier:
        nxt = set(T[(r << RS) + c] for r in frontier for c in syms) - closure
        closure |= nxt
        frontier = nxt
    end_hits = [r for r in closure if r >= ML or MF[4 * T[(r << RS) + C[257]]] != 0]
    out["length_lemma"]["rows_after_N_bytes"] = sorted(closure)
    out["length_lemma"]["end_matches_after_N_bytes"] = end_hits
    if end_hits:
        out["inconclusive"].append({"reason": "length lemma fails: END still matches after %d bytes from rows %s" % (N, end_hits)})
    out["classes"] = {k: {"kind": v[0], "what": v[1]} for k, v in classes.items()}
    out["total_s"] = round(time.time() - t0, 1)
    return out


def run_c12(tables_path, budget_s=300, verbose=True):
    """C12 for ONC-RPC: whatever the real matcher hands to the RPC responders is a CALL - the
    message-type word (bytes 4..7 of a datagram call, 8..11 behind a record mark) is zero - so a
    reply-typed ONC-RPC message (message type 1) is never answered by the RPC responder.  No
    class is excluded here."""
    import z3
    tb = load_tables(tables_path)
    t0 = time.time()
    enc = Encoding(tb)
    out = {"encode_s": round(time.time() - t0, 2), "queries": [], "violations": [], "inconclusive": [], "witness": None}
    nz = lambda lo: z3.Or([enc.d[j] != 0 for j in range(lo, lo + 4)])
    for mode, real in (("stream", enc.stream_id), ("datagram", enc.dgram_id)):
        for k in range(0, N + 1):
            s = enc.solver()
            s.set("timeout", int(budget_s * 1000 / 4))
            bad = []
            if k >= 8:
                bad.append(z3.And(real[k] == PROTO_RPC_UDP, nz(4)))
            if k >= 12:
                bad.append(z3.And(real[k] == PROTO_RPC_TCP, nz(8)))
            if k < 8:
                bad.append(z3.Or(real[k] == PROTO_RPC_UDP, real[k] == PROTO_RPC_TCP))
            elif k < 12:
                bad.append(real[k] == PROTO_RPC_TCP)
            s.add(z3.Or(bad))
            t1 = time.time()
            r = s.check()
            q = {"mode": mode, "length": k, "result": str(r), "solver_s": round(time.time() - t1, 2)}
            if r == z3.sat:
                m = s.model()
                q["witness"] = enc.model_bytes(m, k).hex()
                q["real"] = m.eval(real[k], model_completion=True).as_long()
                out["violations"].append(q)
            elif r != z3.unsat:
                out["inconclusive"].append(q)
            out["queries"].append(q)
            if time.time() - t0 > budget_s:
                out["inconclusive"].append({"reason": "budget exhausted", "at": [mode, k]})
                return out
    # vacuity: some payload IS handed to each RPC responder
    for idd, name in ((PROTO_RPC_UDP, "rpc:udp"), (PROTO_RPC_TCP, "rpc:tcp")):
        s = enc.solver()
        s.add(enc.dgram_id[N] == idd)
        r = s.check()
        out["queries"].append({"mode": "witness", "length": N, "result": str(r), "what": name})
        if r != z3.sat:
            out["inconclusive"].append({"reason": "no payload reaches %s: vacuous" % name})
    out["total_s"] = round(time.time() - t0, 1)
    return out


if __name__ == "__main__":
    if len(sys.argv) > 3 and sys.argv[3] == "c12":
        print(json.dumps(run_c12(sys.argv[1], budget_s=float(sys.argv[2])), indent=1))
        sys.exit(0)
    kk = None
    if len(sys.argv) > 4:
        kk = set(x for x in sys.argv[4].split(",") if x)
    res = run(sys.argv[1], budget_s=float(sys.argv[2]) if len(sys.argv) > 2 else 600,
              lengths=[int(x) for x in sys.argv[3].split(",")] if len(sys.argv) > 3 and sys.argv[3] != "all" else None,
              known_keys=kk)
    print(json.dumps(res, indent=1))
