"""Driver: decides one property by bounded symbolic model checking (Kani/CBMC) of the real
functions compiled from /repo's current working tree.

exit 0  property held on everything explored (within the bounds written to the evidence file)
exit 1  violation: solver counterexample, replayed natively; prints VIOLATION property=.. replay=..
exit 2  inconclusive / infrastructure error (never reported as held, never as a violation)
"""
import argparse
import json
import os
import random
import re
import resource
import shutil
import subprocess
import sys
import time

sys.path.insert(0, os.path.dirname(os.path.abspath(__file__)))
import overlay as ov_mod  # noqa: E402
from overlay import InfraError, log, sh, VERIF, REPO  # noqa: E402

TIERS = {
    # per-harness cap (s), per-harness memory cap (GB), parallel jobs, whole-check cap (s)
    "quick": {"harness_timeout": 560, "mem_gb": 14, "jobs": 8, "total": 1500},
    "thorough": {"harness_timeout": 1500, "mem_gb": 16, "jobs": 8, "total": 7200},
}

PROPS = ["C%02d" % i for i in range(1, 21)]


def load_known():
    p = os.path.join(VERIF, "known_findings.json")
    if not os.path.exists(p):
        return []
    return json.load(open(p))["findings"]


def mod_path_of(target):
    # src/layer_4/tcp.rs -> layer_4::tcp ; src/proto/mod.rs -> proto ; src/masscanned.rs -> ""
    rel = target[len("src/"):-len(".rs")]
    parts = rel.split("/")
    if parts[-1] == "mod":
        parts = parts[:-1]
    if parts == ["masscanned"]:
        parts = []
    return "::".join(parts)


def full_name(h):
    mp = mod_path_of(h.target)
    return "::".join([x for x in (mp, h.mod, h.name) if x])


def quick_sets():
    p = os.path.join(VERIF, "lib", "quick_sets.json")
    if os.path.exists(p):
        return json.load(open(p))
    return {}


def select(harnesses, prop, tier, only=None):
    qs = quick_sets().get(prop)
    if tier == "quick" and qs:
        missing = [n for n in qs if n not in harnesses]
        if missing:
            raise InfraError("lib/quick_sets.json names unknown harnesses: %s" % missing)
        sel = [harnesses[n] for n in qs]
        if only:
            sel = [h for h in sel if any(o in h.name for o in only)]
        return sorted(sel, key=lambda h: h.name)
    sel = []
    for h in harnesses.values():
        for p in h.props:
            pid, _, when = p.partition("@")
            if pid != prop:
                continue
            if when == "thorough" and tier != "thorough":
                continue
            if h.tier == "thorough" and tier != "thorough":
                continue
            if h.tier == "extended" and not os.environ.get("VERIF_EXTENDED"):
                # harnesses that are known not to finish within their cap on this machine are kept
                # in the repository (and named in DESIGN.md) but are not part of any registered tier
                continue
            sel.append(h)
            break
    # thorough always includes the quick set
    for n in (qs or []):
        if n in harnesses and harnesses[n] not in sel:
            sel.append(harnesses[n])
    if only:
        sel = [h for h in sel if any(o in h.name for o in only)]
    return sorted(sel, key=lambda h: h.name)


def set_limits(mem_gb):
    def f():
        os.setsid()
    return f


def cbmc_watchdog(pgid, mem_gb, stop, killed):
    """RLIMIT_AS on `cargo kani` would also hit kani-driver (which buffers CBMC's JSON output and
    dies with all results); instead every CBMC process of our process group is watched and
    killed alone when its resident set exceeds the per-harness cap."""
    import threading
    page = os.sysconf("SC_PAGE_SIZE")
    cap = mem_gb * (1 << 30)
    total_cap = int(os.environ.get("VERIF_TOTAL_MEM_GB", "44")) * (1 << 30)
    while not stop.is_set():
        try:
            mine = []
            everyone = 0
            for pid in os.listdir("/proc"):
                if not pid.isdigit():
                    continue
                try:
                    st = open("/proc/%s/stat" % pid).read()
                    comm = st[st.index("(") + 1:st.rindex(")")]
                    if comm != "cbmc":
                        continue
                    rest = st[st.rindex(")") + 2:].split()
                    rss = int(rest[21]) * page
                    everyone += rss
                    if int(rest[2]) != pgid:
                        continue
                    mine.append((rss, int(pid)))
                    if rss > cap:
                        os.kill(int(pid), 9)
                        killed.append((int(pid), rss))
                        log("watchdog: killed cbmc pid %s (rss %.1f GB > cap %d GB)" % (pid, rss / 2**30, mem_gb))
                except (IOError, OSError, ValueError, IndexError):
                    continue
            # machine-wide budget over all CBMC processes (this sandbox has no swap): the largest of
            # OUR processes is sacrificed (its harness becomes inconclusive) before the kernel's
            # OOM killer takes an arbitrary one
            if everyone > total_cap and mine:
                rss, pid = max(mine)
                try:
                    os.kill(pid, 9)
                    killed.append((pid, rss))
                    log("watchdog: all CBMC processes use %.1f GB > %.0f GB: killed pid %d (rss %.1f GB)" % (
                        everyone / 2**30, total_cap / 2**30, pid, rss / 2**30))
                except OSError:
                    pass
        except Exception:
            pass
        stop.wait(2.0)


def run_kani(ov, target_dir, hs, tier_cfg, out_json, logfile, playback=False, jobs=None):
    cmd = ["cargo", "kani", "--target-dir", target_dir, "-Z", "stubbing", "-Z", "unstable-options",
           "--output-format", "terse", "--exact"]
    for h in hs:
        cmd += ["--harness", full_name(h)]
    timeout = tier_cfg.get("override_timeout") or max([h.timeout or tier_cfg["harness_timeout"] for h in hs])
    cmd += ["--harness-timeout", "%ds" % timeout]
    if playback:
        cmd += ["-Z", "concrete-playback", "--concrete-playback=print"]
    else:
        j = min(jobs or tier_cfg["jobs"], len(hs))
        if j > 1:
            cmd += ["-j", str(j)]
        cmd += ["--export-json", out_json]
    mem = max([h.mem_gb or tier_cfg["mem_gb"] for h in hs])
    if playback:
        mem = 48  # kani-driver itself parses the JSON trace in memory
        if tier_cfg.get("playback_property"):
            # ask CBMC for the trace of ONE failed check only (measured: 26 s instead of > 30 min
            # for traces of every failed check and every satisfied cover); must be the last flag
            cmd += ["--cbmc-args", "--property", tier_cfg["playback_property"]]
    env = dict(os.environ)
    env.update(ov_mod.ENV_OFFLINE)
    env.pop("RUSTFLAGS", None)
    t0 = time.time()
    import threading
    stop = threading.Event()
    killed = []
    with open(logfile, "w") as lf:
        p = subprocess.Popen(cmd, cwd=ov, env=env, stdout=lf, stderr=subprocess.STDOUT,
                             preexec_fn=set_limits(mem))
        wd = threading.Thread(target=cbmc_watchdog, args=(p.pid, mem, stop, killed))
        wd.daemon = True
        wd.start()
        try:
            # waves of `jobs` harnesses, each at most `timeout`, plus build time
            waves = (len(hs) + max(1, (jobs or tier_cfg["jobs"])) - 1) // max(1, (jobs or tier_cfg["jobs"]))
            p.wait(timeout=min(tier_cfg["total"], 300 + waves * (timeout + 60)))
        except subprocess.TimeoutExpired:
            try:
                os.killpg(p.pid, 9)
            except Exception:
                pass
            p.wait()
        finally:
            stop.set()
    return p.returncode, time.time() - t0, " ".join(cmd)


def parse_export(out_json):
    if not os.path.exists(out_json):
        return None
    try:
        return json.load(open(out_json))
    except Exception:
        return None


def parse_playback_tests(text):
    """Return list of (check_kind, check_desc, test_name, test_code)."""
    out = []
    for m in re.finditer(r"```\n(.*?)```", text, re.S):
        code = m.group(1)
        mm = re.search(r"/// Check for `(\w+)`: \"(.*)\"\s*\n", code)
        nm = re.search(r"fn (kani_concrete_playback_\w+)\(\)", code)
        if nm:
            kind = mm.group(1) if mm else "?"
            desc = mm.group(2) if mm else "?"
            out.append((kind, desc.strip('"'), nm.group(1), code))
    return out


def decode_vals(code):
    vals = []
    for m in re.finditer(r"vec!\[([0-9, ]*)\],", code):
        s = m.group(1).strip()
        vals.append([int(x) for x in s.split(",")] if s else [])
    return vals


class Verdict(object):
    def __init__(self):
        self.violations = []      # dicts
        self.known_lines = []
        self.inconclusive = []
        self.passed = []


def main(argv=None):
    ap = argparse.ArgumentParser()
    ap.add_argument("prop", nargs="?")
    ap.add_argument("--tier", default=os.environ.get("VERIF_TIER", "quick"), choices=["quick", "thorough"])
    ap.add_argument("--replay")
    ap.add_argument("--only", action="append", help="substring filter on harness names (debugging)")
    ap.add_argument("--keep", action="store_true", help="keep the scratch overlay")
    ap.add_argument("--jobs", type=int)
    ap.add_argument("--timeout", type=int, help="override the per-harness cap in seconds (debugging)")
    ap.add_argument("--list", action="store_true")
    ap.add_argument("--compile", action="store_true", help="type-check the overlay with ALL harness files (no verification)")
    ap.add_argument("--no-evidence", action="store_true")
    args = ap.parse_args(argv)
    try:
        if args.replay:
            from replay import replay_file
            return replay_file(args.replay, keep=args.keep)
        if args.compile:
            files, harnesses = ov_mod.parse_harness_files()
            scratch = "/var/tmp/masscanned-verif.compile.%d" % os.getpid()
            os.makedirs(scratch, exist_ok=True)
            try:
                declared = set(k for h in harnesses.values() for k in h.known)
                ov, src_hash, _ = ov_mod.build_overlay(scratch, files, (), declared)
                ov_mod.dump_tables(ov, src_hash)
                tgt = ov_mod.seed_kani_target(scratch)
                rc, out, wall = sh(["cargo", "kani", "--target-dir", tgt, "-Z", "stubbing", "-Z", "unstable-options", "--no-codegen"],
                                   cwd=ov, check=False, timeout=1800)
                errs = [l for l in out.splitlines() if l.startswith("error")]
                print("\n".join(out.splitlines()[-3:]) if rc == 0 else out[max(0, out.find("\nerror")):][:6000])
                log("compile check rc=%s in %.0fs (%d harnesses in %d files)" % (rc, wall, len(harnesses), len(files)))
                return 0 if rc == 0 else 2
            finally:
                shutil.rmtree(scratch, ignore_errors=True)
        if args.list:
            files, harnesses = ov_mod.parse_harness_files()
            for pid in PROPS:
                for t in ("quick", "thorough"):
                    print(pid, t, " ".join(h.name for h in select(harnesses, pid, t)))
            return 0
        if args.prop == "DEV":
            args.no_evidence = True
            return check(args)
        if not args.prop or args.prop not in PROPS:
            ap.error("property id C01..C20 required")
        return check(args)
    except InfraError as e:
        log("INCONCLUSIVE (infrastructure): %s" % e)
        return 2


def check(args):
    from replay import replay_counterexample
    from evidence import write_evidence
    prop, tier = args.prop, args.tier
    tier_cfg = dict(TIERS[tier])
    if args.timeout:
        tier_cfg["override_timeout"] = args.timeout
    seed = int(os.environ.get("VERIF_SEED", "0") or 0)
    t_start = time.time()
    files, harnesses = ov_mod.parse_harness_files()
    if prop == "DEV":
        sel = sorted([h for h in harnesses.values() if any(o in h.name for o in (args.only or []))], key=lambda h: h.name)
    else:
        sel = select(harnesses, prop, tier, args.only)
    if not sel and not (prop == "DEV" and args.only and "c13_z3" in args.only):
        raise InfraError("no harness registered for %s at tier %s" % (prop, tier))
    random.Random(seed).shuffle(sel)
    known = load_known()
    known_keys = set(k["key"] for k in known if k.get("status") == "known")
    declared_keys = set()
    for h in harnesses.values():
        declared_keys.update(h.known)
    scratch = os.environ.get("VERIF_SCRATCH") or "/var/tmp/masscanned-verif.%s.%d" % (prop, os.getpid())
    os.makedirs(scratch, exist_ok=True)
    verdict = Verdict()
    results = {}
    info = {"repo_head": ov_mod.git_head(REPO), "tier": tier, "seed": seed, "property": prop}
    try:
        # only the harness files that hold selected harnesses are appended, so that a harness
        # file that no longer compiles against a modified tree cannot break unrelated properties
        used = set(h.file for h in sel)
        files = [f for f in files if f["path"] in used]
        ov, src_hash, nrw = ov_mod.build_overlay(scratch, files, known_keys, declared_keys)
        info["repo_src_sha256"] = src_hash
        info["collections_rewrites"] = nrw
        if any(h.needs_tables for h in sel):
            info["tables"] = ov_mod.dump_tables(ov, src_hash)
            log("tables: %s" % info["tables"])
        # ---- shard the harness set: one `cargo kani` process per shard, each with its own target
        # dir (hard-link copy of the dependency cache).  Kani generates one goto binary per
        # harness sequentially inside one rustc run, so sharding parallelises code generation too.
        log("%s/%s: %d harness(es): %s" % (prop, tier, len(sel), " ".join(h.name for h in sel)))
        total_jobs = args.jobs or 12
        shard_size = int(os.environ.get("VERIF_SHARD_SIZE", "2"))
        shards = [sel[i:i + shard_size] for i in range(0, len(sel), shard_size)]
        par_shards = max(1, min(len(shards), total_jobs // min(shard_size, max(1, len(sel)))))
        import threading
        lock = threading.Lock()
        merged = {"results": [], "cbmc": [], "property_details": [], "error_details": []}
        cmds = []
        fails = []
        queue = list(enumerate(shards))

        def worker():
            while True:
                with lock:
                    if not queue:
                        return
                    k, sh_hs = queue.pop(0)
                tdir = ov_mod.seed_kani_target(scratch, "kani-target-%d" % k)
                oj = os.path.join(scratch, "kani-%d.json" % k)
                lf = os.path.join(scratch, "kani-%d.log" % k)
                rc, wall, cmd = run_kani(ov, tdir, sh_hs, tier_cfg, oj, lf, jobs=len(sh_hs))
                data = parse_export(oj)
                with lock:
                    cmds.append(cmd)
                    if data is None:
                        logtxt = open(lf, errors="replace").read()
                        tail = "\n".join(l for l in logtxt.splitlines() if not l.startswith("warning"))[-5000:]
                        fails.append("shard %d: cargo kani produced no results (rc=%s):\n%s" % (k, rc, tail))
                    else:
                        merged["results"] += data["verification_results"]["results"]
                        merged["cbmc"] += data.get("cbmc", [])
                        merged["property_details"] += data.get("property_details", [])
                        merged["error_details"] += data.get("error_details", [])

        t_k = time.time()
        threads = [threading.Thread(target=worker) for _ in range(par_shards)]
        for t in threads:
            t.start()
        for t in threads:
            t.join()
        info["kani_cmd"] = cmds[0] if cmds else ""
        info["kani_shards"] = len(shards)
        info["kani_wall_s"] = round(time.time() - t_k, 1)
        if fails and not merged["results"]:
            raise InfraError(fails[0])
        for f in fails:
            verdict.inconclusive.append(f[:3000])
        target_dir = ov_mod.seed_kani_target(scratch, "kani-target-0")
        data = {"verification_results": {"results": merged["results"]}, "cbmc": merged["cbmc"],
                "property_details": merged["property_details"], "error_details": merged["error_details"]}
        by_id = {r["harness_id"]: r for r in data["verification_results"]["results"]}
        stats = {c["harness_id"]: c.get("cbmc_stats", {}) for c in data.get("cbmc", [])}
        pdet = {c["harness_id"]: c.get("property_details", {}) for c in data.get("property_details", [])}
        edet = {c["harness_id"]: c for c in data.get("error_details", [])}
        for h in sel:
            fid = full_name(h)
            r = by_id.get(fid)
            res = {"harness": h.name, "status": None, "failed": [], "covers": {}, "stats": stats.get(fid, {}),
                   "props": pdet.get(fid, {}), "duration_s": None}
            results[h.name] = res
            if r is None:
                res["status"] = "missing"
                verdict.inconclusive.append("%s: no result (timeout/crash/killed)" % h.name)
                continue
            res["duration_s"] = r.get("duration_ms", 0) / 1000.0
            checks = r.get("checks", [])
            res["n_checks"] = len(checks)
            res["sample_checks"] = [
                {"description": c["description"], "status": c["status"],
                 "at": "%s:%s" % (c.get("location", {}).get("file"), c.get("location", {}).get("line"))}
                for c in checks if c.get("category") in ("assertion", "cover") and "verif_" in (c.get("function") or "")][:6]
            for c in checks:
                if c.get("category") == "cover":
                    d = c["description"].strip('"')
                    st = c["status"]
                    # a cover in a helper used by several paths appears several times: satisfied if any is
                    if res["covers"].get(d) != "Satisfied":
                        res["covers"][d] = st
            failed = [c for c in checks if c["status"] in ("Failure",)]
            undet = [c for c in checks if c["status"] in ("Undetermined", "Unknown", "Error")]
            res["failed"] = [{"description": c["description"].strip('"'),
                              "at": "%s:%s" % (c.get("location", {}).get("file"), c.get("location", {}).get("line")),
                              "function": c.get("function"), "category": c.get("category")} for c in failed]
            ed = edet.get(fid, {})
            st = r.get("status")
            if st == "Success" and not failed and not undet:
                res["status"] = "success"
            elif failed:
                res["status"] = "failed"
            else:
                res["status"] = "inconclusive"
                verdict.inconclusive.append("%s: status=%s error=%s" % (h.name, st, ed.get("error_type")))
        # ---- interpret ----  (failed harnesses: the cheapest counterexample is replayed first)
        for h in sorted(sel, key=lambda h: (results[h.name]["status"] == "failed", results[h.name].get("duration_s") or 0)):
            res = results[h.name]
            if res["status"] == "success":
                # vacuity: expected covers
                bad = [c for c in h.covers if res["covers"].get(c) != "Satisfied"]
                if bad:
                    res["status"] = "vacuous"
                    verdict.inconclusive.append("%s: vacuity witness not satisfied: %s (%s)" % (
                        h.name, bad, {c: res["covers"].get(c) for c in bad}))
                else:
                    verdict.passed.append(h.name)
                # known findings still present?
                for c, st in res["covers"].items():
                    if c.startswith("KF:") and st == "Satisfied":
                        key = c[3:].split()[0]
                        if key in known_keys:
                            what = [k for k in known if k["key"] == key][0]["what"]
                            line = "KNOWN-FINDING: property=%s %s: %s" % (
                                [k for k in known if k["key"] == key][0]["property"], key, what)
                            if line not in verdict.known_lines:
                                verdict.known_lines.append(line)
            elif res["status"] == "failed":
                unwind_only = all("unwinding assertion" in f["description"] for f in res["failed"])
                if unwind_only:
                    res["status"] = "inconclusive"
                    verdict.inconclusive.append("%s: unwinding assertion failed (bound too small for this tree): %s" % (
                        h.name, res["failed"][:2]))
                    continue
                log("%s FAILED: %s" % (h.name, res["failed"][:4]))
                if verdict.violations and not os.environ.get("VERIF_REPLAY_ALL"):
                    # one replayed counterexample decides the verdict; the other failed harnesses
                    # are listed in the evidence but not replayed (each replay re-runs CBMC with traces)
                    res["replay"] = {"reproduced": None, "why": "not replayed: a violation of this property was already reproduced"}
                    continue
                rep = replay_counterexample(prop, h, ov, target_dir, tier_cfg, scratch, res)
                res["replay"] = rep
                if rep["reproduced"]:
                    verdict.violations.append({"harness": h.name, "replay": rep["path"], "failed": res["failed"]})
                else:
                    verdict.inconclusive.append("%s: solver counterexample did not reproduce natively: %s" % (
                        h.name, rep.get("why")))
        if prop == "C10" and not args.only:
            from c10_engine import run_c10
            run_c10(ov, scratch, info, known, known_keys, tier, results, verdict, sel)
        if prop == "C12" and not args.only:
            from c10_engine import run_c12_rpc
            run_c12_rpc(ov, scratch, info, tier, results, verdict, sel)
        if (prop == "C13" and not args.only) or (prop == "DEV" and args.only and "c13_z3" in args.only):
            from c13_engine import run_c13
            run_c13(ov, scratch, info, known, known_keys, tier, results, verdict, sel)
        wall = time.time() - t_start
        if not args.no_evidence:
            write_evidence(prop, tier, seed, sel, results, verdict, info, wall, known)
        for l in verdict.known_lines:
            print(l)
        for r in results.values():
            log("  %-40s %-12s %6.1fs  checks=%s covers=%s" % (
                r["harness"], r["status"], r["duration_s"] or -1, r.get("n_checks"),
                {k: v[:5] for k, v in r["covers"].items()}))
        if verdict.violations:
            for v in verdict.violations:
                print("VIOLATION property=%s replay=%s" % (prop, v["replay"]))
                log("  violated in %s: %s" % (v["harness"], v["failed"][:3]))
            return 1
        if verdict.inconclusive:
            for m in verdict.inconclusive:
                log("INCONCLUSIVE: %s" % m)
            return 2
        log("%s/%s held within bounds: %d harnesses, %.0fs" % (prop, tier, len(sel), wall))
        return 0
    finally:
        if not args.keep and not os.environ.get("VERIF_KEEP"):
            shutil.rmtree(scratch, ignore_errors=True)
        else:
            log("scratch kept at %s" % scratch)


if __name__ == "__main__":
    sys.exit(main())
