import os, shutil, sys, time
sys.path.insert(0, os.path.dirname(os.path.abspath(__file__)))
import overlay as ov_mod
from overlay import sh, log

def main():
    t0 = time.time()
    files, harnesses = ov_mod.parse_harness_files()
    scratch = "/var/tmp/masscanned-verif.setup.%d" % os.getpid()
    os.makedirs(scratch, exist_ok=True)
    try:
        declared = set()
        for h in harnesses.values():
            declared.update(h.known)
        ov, src_hash, _ = ov_mod.build_overlay(scratch, files, (), declared)
        log("setup: dumping matcher tables natively (builds the native test cache)")
        print(ov_mod.dump_tables(ov, src_hash))
        log("setup: building the Kani dependency cache")
        os.makedirs(ov_mod.KANI_SEED_TARGET, exist_ok=True)
        rc, out, wall = sh(["cargo", "kani", "--target-dir", ov_mod.KANI_SEED_TARGET, "-Z", "stubbing", "-Z", "unstable-options",
                            "--only-codegen", "--harness", "verif_setup_no_such_harness"], cwd=ov, check=False, timeout=3600)
        log("setup: kani codegen rc=%s %.0fs" % (rc, wall))
        if "error: could not compile" in out:
            sys.stderr.write(out[-4000:])
            return 1
        log("setup: building the native playback cache")
        from replay import PLAYBACK_TARGET
        rc, out, wall = sh(["cargo", "kani", "playback", "-Z", "concrete-playback", "--only-codegen"], cwd=ov,
                           env={"CARGO_TARGET_DIR": PLAYBACK_TARGET}, check=False, timeout=3600)
        log("setup: playback build rc=%s %.0fs" % (rc, wall))
        if rc != 0:
            sys.stderr.write(out[-4000:])
            return 1
        log("setup done in %.0fs" % (time.time() - t0))
        return 0
    finally:
        shutil.rmtree(scratch, ignore_errors=True)

sys.exit(main())
